"""C19 — Only authorised callers configure or act for others; paused means no fund moves.

The whole matrix  endpoint (and on-behalf argument variant) x caller role x contract state  of all
16 contracts is executed on the real contracts (tools/sys_access.py); the outcome class of every
cell is compared with the Coq model's verdict (Run/AccessRun.v: check_entry, evaluated by
vm_compute), and the property's own clauses are evaluated on the real outcomes by `monitor`.

The endpoint inventory (coq/Gen/Endpoints.v) is regenerated from the Rust sources when this module is
imported, i.e. before the framework builds Props/C19.vo, so a function added to /repo without a row in
the access table breaks `C19_inventory_covered`; the same comparison is made here against the rows
read from the compiled model, so it is also reported when the shared Coq tree cannot be rewritten.
"""
import concurrent.futures, random, json
import inventory
import sys_access as sa
import coqrun
from framework import Exploration

ASSUMPTIONS = ["A-VM",
               "A-CHANGE-OWNER: the debug VM's ChangeOwnerAddress does not check its caller, so the permissions exploration issues it "
               "from the chain owner only",
               "A-LIFECYCLE: init / upgrade are reachable only through deployment / upgrade transactions (protocol rule; "
               "the native debug VM would dispatch them as plain calls, so they are classified but not executed)",
               "A-SYSTEM-SC: ESDT system-contract calls (issue, set/unset special roles) are emulated or absent in the debug VM; "
               "cells whose guard passes and then reach an unsupported system call count as 'other error'"]

RULE = ("exhaustive enumeration, no sampling: every row of the access table (every function exported by the 16 contracts' "
        "Rust sources per tools/inventory.py, plus the original-caller / for-other-user argument variants) x every caller "
        "role defined for the contract (owner, admin, pauser, plain user, authorised / revoked / blacklisted agent, and the "
        "configured counterparties: whitelisted contract, router, unstake contract, old factory, transfer-whitelisted "
        "contract, energy factory, known contract, initial liquidity adder, proposer) x every contract state (inactive, "
        "partially active, active, paused), called with valid arguments and payments on a deployment where every role "
        "holds positions; a cell is non-trivial when its outcome is decisive (ok, permission error or state error -- not an "
        "unrelated argument error) ; distinct by (contract, endpoint, variant, role, state)")

_INV_ERROR = None
try:                                   # before the framework builds the proofs (see module docstring)
    inventory.write()
except Exception as e:                 # reported by explore()
    _INV_ERROR = str(e)

SWAPS = ("swapTokensFixedInput", "swapTokensFixedOutput", "swapNoFeeAndForward")


def cell_key(c):
    return f"{c['contract']}:{c['endpoint']}{sa.VARIANT_NAMES[c['variant']]}:{sa.ROLE_NAMES[c['role']]}:{sa.STATE_NAMES[c['state']]}"


def monitor(row, c):
    """the property's clauses on one executed cell of the real contracts -> [(key, what)]"""
    out = []
    if c.get("skipped"):
        return out
    key = cell_key(c)
    role, st, ok = c["role"], c["state"], c["ok"]
    who = f"{sa.ROLE_NAMES[role]} calling {c['contract']}.{c['endpoint']}{sa.VARIANT_NAMES[c['variant']]} in state {sa.STATE_NAMES[st]}"
    # 1. configuration / admin endpoints and contract-to-contract entry points: only the required role
    if row.kind in (sa.K_CONFIG, sa.K_ENTRY) and ok and not sa.holds_role(row, role):
        out.append((key, f"{who} succeeded without holding the required role ({c['call']})"))
    # 2. acting on behalf: whitelisted contract or the user's non-blacklisted authorisation -- for the user whose
    #    positions are paid: a position recorded for ANOTHER owner (at any payment index) must make the call fail,
    #    whatever that other owner authorised
    if sa.is_foreign(c["variant"]):
        if ok:
            k = sa.foreign_k(c["variant"])
            out.append((f"{c['contract']}:{c['endpoint']}:{sa.ROLE_NAMES[role]}:foreign-owner-payment@{k}",
                        f"{who} succeeded although payment {k} is a position recorded for another owner "
                        f"({sa.OTHER_AUTH[sa.foreign_o(c['variant'])]} w.r.t. the agent) ({c['call']})"))
    elif row.kind == sa.K_ONBEHALF and ok and role not in (sa.R_AGENT, 10 + sa.P_WL):
        out.append((key, f"{who} acted for another user without authorisation ({c['call']})"))
    if row.kind == sa.K_ONBEHALF and row.guard == sa.G_HUB and ok and "deltas" in c:
        caller_gain = sum(v for (a, t), v in c["deltas"].items() if a == c["frm"])
        if caller_gain > 0:
            owner_gain = sum(v for (a, t), v in c["deltas"].items() if a != c["frm"])
            out.append((key + ":reward-destination", f"{who}: the caller received {caller_gain} reward tokens of a claim made on "
                        f"behalf of the position owner (who received {owner_gain})"))
    # 3. paused / inactive: no user operation that moves funds
    if c["contract"] in sa.PAUSABLE and row.kind in (sa.K_USERFUNDS, sa.K_ONBEHALF) and st in (sa.S_INACTIVE, sa.S_PAUSED) and ok:
        if not (c["contract"] == "pair" and c["endpoint"] == "addInitialLiquidity" and st == sa.S_INACTIVE):
            out.append((key, f"{who} moved funds while the contract is not active ({c['call']})"))
    # 4. partially active pair: liquidity yes, swaps no
    if c["contract"] == "pair" and st == sa.S_PARTIAL:
        if c["endpoint"] in SWAPS and ok:
            out.append((key, f"{who}: a swap succeeded on a partially active pair"))
        if c["endpoint"] in ("addLiquidity", "removeLiquidity") and c["outcome"] == sa.O_STATE:
            out.append((key, f"{who}: liquidity operation refused for state reasons on a partially active pair ({c['msg']})"))
    # 5. a rejected call leaves storage and balances unchanged
    if not ok and c["changed"]:
        out.append((key + ":state-changed", f"{who} failed ({c['msg']}) but storage or balances of the deployment changed"))
    return out


def nontrivial(row, c):
    if c.get("skipped") or c["outcome"] == sa.O_OTHER:
        return None
    return (c["contract"], c["endpoint"], c["variant"], c["role"], c["state"])


def _ser(c):
    d = dict(c)
    if "deltas" in d:
        d["deltas"] = {f"{a.hex()}:{t.decode()}": v for (a, t), v in d["deltas"].items()}
    if "frm" in d:
        d["frm"] = d["frm"].hex()
    return d


def explore(tier, seed, model_ok=True, focus=False):
    ex = Exploration()
    ex.rule = RULE
    if _INV_ERROR:
        ex.disagreements.append(dict(where="tools/inventory.py", detail=_INV_ERROR))
    try:
        table = sa.load_table()
    except Exception as e:
        ex.disagreements.append(dict(where="Run.AccessRun.table_codes", detail=f"cannot read the access table from the compiled model: {e}"))
        return ex
    rows, roles, states = table
    byrow = {(r.contract, r.endpoint, r.variant): r for r in rows}
    # inventory coverage, independently of the Coq proof
    inv = inventory.inventory()
    for cname, eps in inv.items():
        for e in eps:
            if (cname, e["name"], sa.V_PLAIN) not in byrow:
                ex.failures.append(dict(key=f"inventory:{cname}:{e['name']}:unclassified",
                                        what=f"{cname}.{e['name']} ({e['file']}:{e['line']}) is exported by the source but has no row in the "
                                             f"access table (coq/Model/Access.v)", replay=dict(kind="inventory", contract=cname, endpoint=e["name"])))
    for r in rows:
        if r.variant == sa.V_PLAIN and not any(e["name"] == r.endpoint for e in inv.get(r.contract, [])):
            ex.disagreements.append(dict(where="Model.Access.access_table", detail=f"row {r.key} names a function the source does not export"))
    jobs = [(w.__name__, seed, 1.0, table) for w in sa.WORLDS]
    cells = []
    with concurrent.futures.ProcessPoolExecutor(max_workers=min(16, len(jobs))) as pool:
        for wname, res in zip([j[0] for j in jobs], pool.map(sa.run_world, jobs)):
            for c in res:
                c["world"] = wname
            cells.extend(res)
    ex.histories = len({(c["contract"], c["state"]) for c in cells})
    grouped = {}
    executed_rows = set()
    for c in cells:
        k = (c["contract"], c["endpoint"], c["variant"])
        row = byrow.get(k)
        cn = c["contract"]
        if c.get("skipped"):
            ex.count(f"{cn}:skipped-no-position")
            continue
        ex.evaluations += 1
        executed_rows.add(k)
        ex.count(f"{cn}:{sa.OUTCOME_NAMES[c['outcome']]}")
        ex.count("outcome:" + sa.OUTCOME_NAMES[c["outcome"]])
        if c.get("crashed"):
            ex.count(f"{cn}:vm-unsupported-system-call")
        grouped.setdefault(k, []).append(c)
        nk = nontrivial(row, c)
        if nk is not None:
            ex.nontrivial.add(nk)
        for key, what in monitor(row, c):
            ex.failures.append(dict(key=key, what=what, replay=dict(kind="cell", world=c["world"], contract=cn, endpoint=c["endpoint"],
                                                                     variant=c["variant"], role=c["role"], state=c["state"],
                                                                     observed=_ser(c))))
        if len(ex.samples) < 6 and c["outcome"] != sa.O_OTHER and (len(ex.samples) % 2 == 0) == c["ok"]:
            ex.samples.append(dict(cell=cell_key(c), call=c["call"], outcome=sa.OUTCOME_NAMES[c["outcome"]], message=c["msg"]))
    lifecycle = [r for r in rows if r.kind == sa.K_LIFECYCLE]
    ex.count("rows:lifecycle-not-executed", len(lifecycle))
    ex.count("rows:executed", len(executed_rows))
    not_run = [r.key for r in rows if r.kind != sa.K_LIFECYCLE and (r.contract, r.endpoint, r.variant) not in executed_rows]
    for k in not_run:
        ex.disagreements.append(dict(where="tools/sys_access.py", detail=f"row {k} was not executed by any world"))
    ex.count("matrix_exhaustive", 1)
    ex.exhaustive = True
    ex.notes.append("coverage.exhaustive: the finite matrix (all rows x roles x states, minus init/upgrade and cells that need a "
                    "position in a never-activated contract) was enumerated completely in this run")
    if model_ok:
        keys = list(grouped)
        terms = [sa.coq_entry(k[0], k[1], k[2], grouped[k]) for k in keys]
        try:
            res = coqrun.eval_terms(sa.IMPORTS, terms, tag="C19", per_file=max(1, len(terms) // 16 + 1))
        except Exception as e:
            ex.disagreements.append(dict(where="Run.AccessRun.check_entry", detail=f"evaluation failed: {e}"))
            res = []
        ex.traces_validated = len(res)
        for k, r in zip(keys, res):
            if not r:
                continue
            if r[0] == -1:
                ex.disagreements.append(dict(where="Run.AccessRun.check_entry", entry=list(k), detail="executed endpoint has no row in the access table"))
                continue
            c = grouped[k][r[0]]
            ex.disagreements.append(dict(where="Run.AccessRun.check_entry", cell=cell_key(c), model_verdict=r[3],
                                         observed=sa.OUTCOME_NAMES[c["outcome"]], message=c["msg"], call=c["call"],
                                         detail="model verdict (0 allowed, 1 permission error, 2 state error, 3 either; negative: role / state not "
                                                "defined for the contract) disagrees with the outcome on the real contract"))
    # router setSwapEnabledByUser: a plain user (the pair's initial liquidity adder) configures and resumes a pair through the
    # router's own owner/pause permission on it - allowed only while the pair is in ActiveNoSwaps; router histories of C14's world
    import props.c14 as c14
    ex14 = c14.explore(tier, seed, model_ok=False, focus=focus, mon=c14.enable_swap_monitor, tag="C19r", scale=0.5)
    ex.evaluations += ex14.evaluations
    ex.histories += ex14.histories
    ex.failures += ex14.failures
    for k_, v_ in ex14.counters.items():
        if k_.startswith("EnableSwap") or k_.startswith("Pause"):
            ex.counters["router:" + k_] = v_
    # behavioural on-behalf exploration with a real permissions hub on farm / locked farm / farm-staking
    from props import behalf_common as bc
    ex = bc.merge(ex, bc.explore_behalf("C19", tier, seed, model_ok, focus, keys=bc.keys_c19))
    # permissions / pausable modules over histories (effect of grant / revoke sequences; revoked keepers)
    from props import perm_common as pc
    ex = pc.merge(ex, pc.explore_perm("C19", tier, seed, model_ok, focus))
    # the on-behalf endpoints of farm-staking-proxy (stakeFarmOnBehalf / claimDualYieldOnBehalf) on the closed composition of
    # C15's world: who may call, whose positions, and where BOTH farms' rewards (LP-farm boosted rewards included) go
    from props import meta_closed_common as mcc
    exm = mcc.explore_meta_closed("C19", tier, seed, model_ok=False, focus=focus)
    exm.failures = [f for f in exm.failures if keys_c19_meta(f["key"])]
    ex = mcc.merge(ex, exm)
    return ex


def keys_c19_meta(key):
    return key.startswith(("ob-", "hub-view-vs-storage", "monitor-cannot-evaluate"))


def replay(data):
    rp = data.get("replay") or {}
    if rp.get("system") == "router":
        import props.c14 as c14
        import sys_router as sr
        return [dict(key=k, what=w) for op, o in sr.replay_history(rp["cfg"], rp["ops"]) for k, w in c14.enable_swap_monitor(rp["cfg"], op, o)]
    if rp.get("system") == "perm":
        from props import perm_common as pc
        return pc.replay_perm(data)
    if rp.get("system") == "meta_closed":
        from props import meta_closed_common as mcc
        return [f for f in mcc.replay_meta_closed(data) if keys_c19_meta(f["key"])]
    if rp.get("system") == "behalf":
        from props import behalf_common as bc
        return bc.replay_behalf(data, bc.keys_c19)
    if rp.get("kind") == "inventory":
        rows, _, _ = sa.load_table()
        have = any(r.contract == rp["contract"] and r.endpoint == rp["endpoint"] and r.variant == sa.V_PLAIN for r in rows)
        return [] if have else [dict(key=data.get("key"), what=data.get("what"))]
    if rp.get("kind") != "cell":
        return []
    rows, roles, states = sa.load_table()
    row = [r for r in rows if (r.contract, r.endpoint, r.variant) == (rp["contract"], rp["endpoint"], rp["variant"])]
    if not row:
        return []
    cls = [w for w in sa.WORLDS if w.__name__ == rp["world"]][0]
    w = cls()
    try:
        cells = sa.run_matrix(w, rp["contract"], row, [rp["role"]], [rp["state"]])
    finally:
        w.close()
    fails = []
    for c in cells:
        r = c.pop("row")
        c["contract"], c["endpoint"], c["variant"] = r.contract, r.endpoint, r.variant
        for key, what in monitor(r, c):
            fails.append(dict(key=key, what=what))
    return fails
