"""C06 — farm base rewards pro rata in stake and time, never retroactive or over-issued (dex/farm)."""
from props.farm_common import explore_farm, replay_farm, MAXP

ASSUMPTIONS = ["A-VM", "boosted payout of claim/exit derived from the observed change of the boosted pools"]
RULE = ("same generator as C05; non-trivial = settlement with supply > 0 where floor(base*DSC/supply) is inexact, or a "
        "claim/exit whose base reward floor is inexact, or an admin change followed by settlement; distinct by (kind, flags, DSC, magnitudes)")


def expected_settle(pre, cfgp, blk, dsc):
    """index after settling the pre-state to blk with the OLD parameters"""
    if blk <= pre["last"] or not cfgp["produce"]:
        return pre["rps"], 0, 0
    tm = cfgp["rate"] * (blk - pre["last"])
    cut = 0 if (cfgp["pct"] == 0 or not cfgp["factors"]) else tm * cfgp["pct"] // MAXP
    inc = 0 if pre["supply"] == 0 else (tm - cut) * dsc // pre["supply"]
    return pre["rps"] + inc, tm, cut


def monitor(cfg, op, o):
    out = []
    pre, cp = o["pre"], o["pre_cfg"]
    if o["rps"] < pre["rps"]:
        out.append(("index-decreased", f"{op}: reward per share went from {pre['rps']} to {o['rps']}"))
    if not o["ok"]:
        return out
    dsc = cfg["dsc"]
    if o["settles"]:
        exp, tm, cut = expected_settle(pre, cp, o["blk"], dsc)
        if o["rps"] != exp:
            out.append((f"index-growth:{op[0]}", f"{op} at block {o['blk']}: index {pre['rps']} -> {o['rps']}, expected {exp} (rate {cp['rate']}, last {pre['last']}, supply {pre['supply']}, pct {cp['pct']})"))
        if o["blk"] > pre["last"] and o["last"] != o["blk"]:
            out.append(("last-reward-block", f"{op}: last reward block {o['last']} after settling at {o['blk']}"))
    elif o["rps"] != pre["rps"]:
        out.append((f"index-changed-without-settlement:{op[0]}", f"{op}: index {pre['rps']} -> {o['rps']}"))
    if op[0] in ("Claim", "Exit"):
        n0, x0 = op[2]
        a = pre["attrs"].get(n0)
        if a:
            base = x0 * (o["rps"] - a[0]) // dsc if o["rps"] > a[0] else 0
            paid = o["outs"][-1]
            if paid - o["b"] != base:
                out.append((f"base-reward-formula:{op[0]}", f"{op}: paid {paid} (boosted {o['b']}), base formula gives {base} (index {o['rps']}, entry {a[0]}, DSC {dsc})"))
    if op[0] == "Enter" and not op[3]:
        a = o["new_attrs"].get(o["outs"][0])
        if a and a[0] != o["rps"]:
            out.append(("entry-index", f"{op}: new position index {a[0]} != current index {o['rps']}"))
    # issuance: paid base so far never exceeds generated base (reserve covers pools)
    if o["pool"] > o["reserve"]:
        out.append(("over-issued", f"{op}: pools {o['pool']} exceed reserve {o['reserve']}"))
    return out


def nontrivial(cfg, op, o):
    if not o["ok"]:
        return None
    pre, cp = o["pre"], o["pre_cfg"]
    dsc = cfg["dsc"]
    if o["settles"] and o["blk"] > pre["last"] and cp["produce"] and pre["supply"] > 0:
        tm = cp["rate"] * (o["blk"] - pre["last"])
        cut = 0 if (cp["pct"] == 0 or not cp["factors"]) else tm * cp["pct"] // MAXP
        inexact = ((tm - cut) * dsc) % pre["supply"] != 0
        kind = "admin" if op[0] in ("SetRate", "End", "SetPct") else "user"
        base_inexact = False
        if op[0] in ("Claim", "Exit"):
            a = pre["attrs"].get(op[2][0])
            base_inexact = bool(a) and (op[2][1] * (o["rps"] - a[0])) % dsc != 0
        if inexact or base_inexact or kind == "admin":
            return (op[0], kind, inexact, base_inexact, cut > 0, dsc, len(str(pre["supply"])) // 4)
    return None


def restart_monitor(cfg, op, o):
    """startProduceRewards sets the last reward block to the current block, so that blocks during which production
    was disabled are never paid for after a restart (all four farm-family worlds report 'last' and 'blk')"""
    if op[0] == "Start" and o["ok"] and o["last"] != o["blk"]:
        return [("restart-retroactive", f"{op} at block {o['blk']}: last reward block is {o['last']} after startProduceRewards")]
    return []


def with_restart(mon):
    return lambda cfg, op, o: list(mon(cfg, op, o)) + restart_monitor(cfg, op, o)


def staking_nontrivial(cfg, op, o):
    if not o["ok"] or not o["settles"]:
        return None
    pre = o["pre"]
    if o["blk"] > pre["last"] and o["acc"] > pre["acc"] and pre["supply"] > 0:
        return ("staking", op[0], cfg["dsc"], len(str(pre["supply"])) // 4, (o["rps"] - pre["rps"]) == 0)
    if o["blk"] > pre["last"] and pre["supply"] == 0:
        return ("staking-idle", op[0])
    return None


def explore(tier, seed, model_ok=True, focus=False):
    """dex/farm histories plus farm-staking histories (its index has the APR cap and the capacity bound)"""
    from props.staking_common import explore_staking, index_monitor
    ex = explore_farm("C06", tier, seed, with_restart(monitor), nontrivial, RULE, model_ok, focus)
    ex2 = explore_staking("C06", tier, seed, with_restart(index_monitor), staking_nontrivial, RULE, model_ok, focus, scale=0.5)
    ex.evaluations += ex2.evaluations
    ex.histories += ex2.histories
    ex.nontrivial |= ex2.nontrivial
    ex.failures += ex2.failures
    ex.disagreements += ex2.disagreements
    ex.traces_validated += ex2.traces_validated
    ex.samples += ex2.samples[:1]
    for k, v in ex2.counters.items():
        ex.counters[k] = ex.counters.get(k, 0) + v
    from props.farm_locked_common import explore_locked, merge_into, monitors_c06, nontrivial_c06
    ex3 = explore_locked("C06", tier, seed, with_restart(monitors_c06), nontrivial_c06, RULE, model_ok, focus, scale=0.5)
    ex = merge_into(ex, ex3)
    from props import staking_pos_common as spc
    ex4 = spc.explore_staking_pos("C06", tier, seed, with_restart(spc.monitors_c06), spc.nontrivial_c06, spc.RULE, model_ok, focus, scale=0.5)
    return spc.merge_exploration(ex, ex4)


def replay(data):
    if data.get("replay", {}).get("system") == "stakingpos":
        from props import staking_pos_common as spc
        return spc.replay_staking_pos(data, with_restart(spc.monitors_c06))
    if data.get("replay", {}).get("system") == "farm-locked":
        from props.farm_locked_common import replay_locked, monitors_c06
        return replay_locked(data, with_restart(monitors_c06))
    if data.get("replay", {}).get("system") == "staking":
        from props.staking_common import replay_staking, index_monitor
        return replay_staking(data, with_restart(index_monitor))
    return replay_farm(data, with_restart(monitor))
