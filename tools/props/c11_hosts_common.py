"""C11 on the two other hosts of the farm-boosted-yields module (real farm-with-locked-rewards + real energy factory,
real farm-staking): exploration driver.  Worlds: tools/sys_boosted_hosts.py; model: coq/Model/BoostedHosts.v
(Run/BoostedHostsRun.v check_trace); theorems: coq/Props/C11_hosts.v.

Monitors = tools/props/c11.py's `monitor`, unchanged, evaluated on the REAL observations of the host (the operation is
handed over in sys_boosted's vocabulary, `o["mop"]`: stakeFarm = enter, unstakeFarm = exit, the user a claim is FOR in
op[1]): the per-week formula recomputed from the views with the user's total position BEFORE the operation, at most
one positive payment per (user, week), sum paid <= frozen pool and remaining = pool - paid per week, undistributed =
exactly the leftovers of weeks (last collected, current-5] swept once, the factor register against the log of accepted
settings, the slice = emission * percentage / 10000 with the HOST's own emission (farm-staking: min(rate*blocks,
APR-bounded, capacity - accumulated)), conservation.  Host-specific additions:
  locked-payment:*   farm-with-locked-rewards: the LOCKED tokens the user receives in enterFarm / mergeFarmTokens /
                     claimBoostedRewards are exactly the decrease of the completed weeks' pools (claim / exit: at least);
                     nobody else receives LOCKED tokens."""
import concurrent.futures
import sys_boosted as sb
import sys_boosted_hosts as sh
import coqrun
from framework import Exploration
from props import c11

SYSTEMS = ("boosted-locked", "boosted-staking")
TAG = {"boosted-locked": "locked", "boosted-staking": "staking"}
RULE = ("the generator of tools/sys_boosted.py (4 users with different and changing energies: long locks, running out inside "
        "the window, below the minimum, zero, tokens without energy; enter/stake with merge, claim, compound, exit/unstake "
        "(partial), merge, claimBoostedRewards; position transfers followed by the receiver using the received token, "
        "optionally after the sender settled; week advances 1..7; factor changes between weeks and right after a week change "
        "incl. rejected sets (zero minimums, cE=cF=0); percentage changes; percentage before factors; "
        "collectUndistributedBoostedRewards by admin / non-admin; updateEnergyForUser; pause; rate changes; malformed payments) "
        "translated to each host's endpoints, plus: farm-with-locked-rewards + REAL energy factory — real lockTokens, the locked "
        "boosted payouts themselves raising the receiver's energy between the claim and the energy update of enterFarm, "
        "compoundRewards (no such endpoint); farm-staking — APR / capacity bounded emission (capacity crossed and topped up in a "
        "third of the histories, APR bound binding in some), withdrawRewards / setMaxApr / topUpRewards, single-position "
        "claimRewards; both — claimBoostedRewards FOR another user (allowExternalClaim flag set in storage / not set); plus "
        "scripted corpus histories per host.  non-trivial and distinct as in C11 (prefixed by the host)")


def budgets(tier):
    return (32, 40) if tier == "quick" else (600, 60)


def strip(o):
    return {k: v for k, v in o.items() if k not in ("pre", "ghost", "owner_of", "held")}


def monitor(system, cfg, op, o):
    """C11's monitors on the host's real observation (+ the locked-token form of the payment)"""
    mop = o["mop"]
    out = [(key, f"[{system}] {op}: {what}") for key, what in c11.monitor(cfg, mop, o)]
    if system == "boosted-locked" and o["ok"]:
        k = op[0]
        recv = o.get("locked_recv", {})
        if k in ("Enter", "Merge", "ClaimBoosted", "Claim", "Exit"):
            u = op[2] if (k == "ClaimBoosted" and len(op) > 2) else op[1]
            got = recv.get(u, 0)
            if k in ("Enter", "Merge", "ClaimBoosted") and got != o["b"]:
                out.append((f"locked-payment:{k}", f"[{system}] {op}: user {u} received {got} LOCKED, the completed weeks' pools decreased by {o['b']}"))
            if k in ("Claim", "Exit") and got < o["b"]:
                out.append((f"locked-payment:{k}", f"[{system}] {op}: user {u} received {got} LOCKED < boosted part {o['b']}"))
            others = {x: v for x, v in recv.items() if x != u}
            if others:
                out.append((f"locked-payment:{k}", f"[{system}] {op}: LOCKED balances of other users moved: {others}"))
        elif k not in ("Lock", "Energy") and recv:
            out.append((f"locked-payment:{k}", f"[{system}] {op}: LOCKED balances moved without a reward payment: {recv}"))
    return out


def nontrivial(system, cfg, op, o):
    k = c11.nontrivial(cfg, o["mop"], o)
    return None if k is None else (TAG[system], op[0]) + tuple(k[1:])


E18 = 10 ** 18
# scripted histories, run in every exploration (deterministic regression corpus)
CORPUS = [
    # locked farm: the boosted payout of enterFarm is locked BEFORE update_energy_and_progress reads the energy again;
    # a position changes hands and the receiver enters with it / claims; a claim FOR another user
    dict(system="boosted-locked", name="enter-pays-locks-then-updates-energy",
         cfg=dict(dsc=10 ** 12, same=False, rate=10 ** 15, epoch0=5, scale=E18, late_factors=False, lockep=720),
         ops=[["SetPct", 100, 2500], ["SetFactors", 100, [2, 3, 2, 1, 1]],
              ["Lock", 1, 700 * E18, 2], ["Lock", 2, 300 * E18, 1], ["Energy", 3, 500 * E18, E18],
              ["Enter", 1, E18, []], ["Enter", 2, 2 * E18, []], ["Enter", 3, E18, []],
              ["Advance", 100, 7],
              ["Enter", 1, E18, []], ["Enter", 2, 5, [(2, E18)]], ["ClaimBoosted", 3],
              ["Advance", 100, 7], ["SetFactors", 100, [1, 1, 1, 1, 1]],
              ["Transfer", 4, 1, 2, E18], ["Enter", 2, 7, [(4, E18)]], ["Claim", 1, (1, E18), []],
              ["AllowExt", 3, True], ["ClaimBoosted", 1, 3], ["ClaimBoosted", 2, 1], ["Exit", 3, (3, E18 // 2)],
              ["Advance", 100, 7], ["Merge", 2, [(5, E18)]], ["Enter", 3, 1, []], ["Compound", 1, (7, E18), []],
              ["Advance", 1000, 49], ["Collect", 2], ["Collect", 100], ["Collect", 100], ["ClaimBoosted", 2]]),
    # staking: sender settles, transfers, receiver compounds / claims / stakes with the received position (the boosted
    # claim must use the receiver's OLD total); a claim FOR another user; unstake below the minimum; capacity crossed
    dict(system="boosted-staking", name="transfer-then-receiver-compounds",
         cfg=dict(dsc=10 ** 12, same=True, rate=10 ** 15, epoch0=5, scale=E18, late_factors=False, apr=10 ** 12, minub=3, cap=10 ** 45),
         ops=[["SetPct", 100, 2500], ["SetFactors", 100, [2, 3, 2, 1, 1]],
              ["Energy", 1, 7000 * E18, 10 * E18], ["Energy", 2, 3000 * E18, 10 * E18], ["Energy", 3, 500 * E18, E18],
              ["Stake", 1, E18, []], ["Stake", 2, 2 * E18, []], ["Stake", 3, E18, []],
              ["Advance", 100, 7],
              ["ClaimBoosted", 1], ["Transfer", 1, 1, 2, E18], ["Compound", 2, (2, 2 * E18), [(1, E18)]],
              ["Claim", 3, (3, E18)],
              ["Advance", 100, 7], ["SetFactors", 100, [1, 1, 1, 1, 1]],
              ["Transfer", 5, 3, 1, E18 // 2], ["Claim", 1, (5, E18 // 2)], ["Unstake", 3, (5, E18 // 4)],
              ["AllowExt", 2, True], ["ClaimBoosted", 3, 2], ["ClaimBoosted", 2, 1],
              ["Advance", 100, 7], ["Transfer", 4, 2, 3, E18], ["Stake", 3, 9, [(4, E18)]], ["Merge", 1, [(6, E18 // 2)]],
              ["Stake", 4, 5 * E18, []],
              ["Advance", 1000, 49], ["Collect", 2], ["Collect", 100], ["Collect", 100], ["ClaimBoosted", 3]]),
    dict(system="boosted-staking", name="capacity-crossed-with-boosted-slice",
         cfg=dict(dsc=10 ** 12, same=True, rate=10 ** 6, epoch0=5, scale=1000, late_factors=False, apr=10 ** 12, minub=0, cap=250 * 10 ** 6),
         ops=[["SetPct", 100, 5000], ["SetFactors", 100, [2, 1, 1, 1, 1]],
              ["Energy", 1, 10 ** 9, 10 ** 5], ["Energy", 2, 10 ** 8, 10 ** 5],
              ["Stake", 1, 10 ** 6, []], ["Stake", 2, 10 ** 6, []],
              ["Advance", 100, 7], ["Claim", 1, (1, 10 ** 6)], ["Advance", 200, 0], ["Compound", 2, (2, 10 ** 6), []],
              ["Advance", 10, 7], ["ClaimBoosted", 1], ["ClaimBoosted", 2], ["TopUp", 100, 10 ** 9],
              ["Advance", 10, 0], ["Unstake", 1, (3, 10 ** 6)], ["Withdraw", 100, 5], ["SetApr", 100, 10 ** 9],
              ["Advance", 10, 7], ["ClaimBoosted", 2], ["Stake", 1, 77, []]]),
]


def _gen(args):
    system, seed, nops = args
    cfg, trace = sh.gen_history(system, seed, nops)
    return system, seed, cfg, trace


def explore_hosts(pid, tier, seed, model_ok=True, focus=False, scale=1.0, nh=None, nops=None, systems=SYSTEMS, corpus=True):
    ex = Exploration()
    ex.rule = RULE
    bh, bo = budgets(tier)
    nh = nh or max(8, int(bh * scale))
    nops = nops or bo
    hist = []
    if corpus:
        for c in CORPUS:
            if c["system"] in systems:
                hist.append((c["system"], f"corpus:{c['name']}", c["cfg"], sh.replay_history(c["system"], c["cfg"], c["ops"])))
    jobs = [(s, seed * 100000 + 70000 + 10000 * si + i, nops) for si, s in enumerate(systems) for i in range(nh)]
    with concurrent.futures.ProcessPoolExecutor(max_workers=16) as pool:
        hist += list(pool.map(_gen, jobs, chunksize=2))
    terms = []
    for system, sd, cfg, trace in hist:
        t = TAG[system]
        ex.histories += 1
        ex.evaluations += len(trace)
        ex.count(f"{t}:histories")
        ops_all = [x[0] for x in trace]
        for i, (op, o) in enumerate(trace):
            ex.count(f"{t}:{op[0]}" + (":ok" if o["ok"] else ":err"))
            ex.count(f"{t}:ops")
            ex.count(f"{t}:ok" if o["ok"] else f"{t}:err")
            if not o["ok"]:
                ex.count(f"{t}:err:" + o["msg"][:40])
            mk = o["mop"][0]
            if mk in sb.USER_OPS and o["ok"]:
                ex.count(f"{t}:user-op:boosted-paid" if o["b"] > 0 else f"{t}:user-op:nothing-paid")
                ex.count(f"{t}:weeks-paid", len([x for x in o["paid"].values() if x > 0]))
                if o["b"] > 0 and op[0] == "ClaimBoosted" and len(op) > 2:
                    ex.count(f"{t}:boosted-paid-claim-for-other-user")
                if o["b"] > 0 and any(o["pre"]["owner_of"].get(n) not in (None, o["mop"][1]) for n, _ in payments_of(o["mop"])):
                    ex.count(f"{t}:boosted-paid-with-received-position")
                if system == "boosted-locked" and op[0] == "Enter" and o["inp"]["cur"] != o["inp"]["cur2"]:
                    ex.count("locked:enter-energy-changed-between-claim-and-update")
            if o["ok"] and o["cut"] > 0:
                ex.count(f"{t}:slice-booked")
                if system == "boosted-staking":
                    pre = o["pre"]
                    d = o["blk"] - pre["last_nonce"]
                    unb = pre["rate"] * d if pre["produce"] else 0
                    aprb = (pre["supply"] * pre["s_apr"] // sb.MAXP // sh.BLOCKS_IN_YEAR) * d
                    left = pre["s_cap"] - pre["s_accrued"]
                    ex.count("staking:slice-bound:" + ("capacity" if left < min(unb, aprb) else "apr" if aprb < unb else "rate"))
            if o.get("froze"):
                ex.count(f"{t}:weeks-frozen", len(o["froze"]))
            if mk == "Collect" and o["ok"]:
                ex.count(f"{t}:weeks-swept", len(o.get("swept_now", {})))
                if any(o.get("swept_now", {}).values()):
                    ex.count(f"{t}:collect-swept>0")
            k = nontrivial(system, cfg, op, o)
            if k is not None:
                ex.nontrivial.add(k)
            try:
                fails = monitor(system, cfg, op, o)
            except Exception as e:      # an observation the monitors cannot evaluate is itself a failure
                fails = [("monitor-crash", f"[{system}] {op}: {type(e).__name__}: {e}")]
            for key, what in fails:
                ex.failures.append(dict(key=key, what=what, replay=dict(system=system, cfg=cfg, ops=ops_all[:i + 1], seed=sd, observed=strip(o))))
        terms.append(sh.coq_history(system, cfg, trace))
        if len(ex.samples) < 4 and not str(sd).startswith("corpus"):
            ex.samples.append(dict(system=system, seed=sd, cfg=cfg, ops=[[op, "ok" if o["ok"] else o["msg"], o["paid"]] for op, o in trace[:14]]))
    if model_ok:
        res = coqrun.eval_terms(sh.IMPORTS, terms, tag=pid + "hosts", per_file=max(1, min(25, len(terms) // 16 + 1)))
        ex.traces_validated = len(res)
        for (system, sd, cfg, trace), r in zip(hist, res):
            if r:
                tr = sh.model_trace(system, trace)
                i = r[0]
                ex.count(f"{TAG[system]}:mismatch")
                ex.disagreements.append(dict(where=f"Run.BoostedHostsRun.{sh.CHECKER[system]}", system=system, seed=sd, cfg=cfg, index=i,
                                             field=r[1], model=r[2], impl=r[3], op=tr[i][0], observed=strip(tr[i][1]),
                                             ops=[x[0] for x in trace]))
    return ex


def payments_of(mop):
    k = mop[0]
    if k == "Enter":
        return list(mop[3])
    if k in ("Claim", "Compound"):
        return [mop[2]] + (list(mop[3]) if len(mop) > 3 else [])
    if k == "Exit":
        return [mop[2]]
    if k == "Merge":
        return list(mop[2])
    return []


def replay_hosts(data):
    rp = data["replay"]
    system = rp["system"]
    trace = sh.replay_history(system, rp["cfg"], rp["ops"])
    fails = []
    for op, o in trace:
        for key, what in monitor(system, rp["cfg"], op, o):
            fails.append(dict(key=key, what=what))
    return fails


def merge_exploration(ex, ex2):
    ex.evaluations += ex2.evaluations
    ex.histories += ex2.histories
    ex.nontrivial |= ex2.nontrivial
    ex.failures += ex2.failures
    ex.disagreements += ex2.disagreements
    ex.traces_validated += ex2.traces_validated
    ex.samples += ex2.samples[:2]
    for k, v in ex2.counters.items():
        ex.counters[k] = ex.counters.get(k, 0) + v
    return ex
