"""Position-level farm-staking: exploration driver and the C05 / C06 / C07 monitors evaluated on REAL
observations of the staking farm (tools/sys_staking_pos.py; Coq side Model/StakingPos.v, Run/StakingPosRun.v)."""
import concurrent.futures
import sys_staking_pos as sp
import coqrun
from framework import Exploration

IMPORTS = "Base.Prelude Gen.Params Model.Staking Model.StakingPos Run.StakingPosRun"
MAXP = 10000
BY = 31_536_000 // 6
POS_OPS = ("Stake", "StakeProxy", "Claim", "ClaimNewValue", "Compound", "Merge")      # mint a position
PAY_OPS = ("Claim", "ClaimNewValue", "Unstake", "UnstakeProxy", "Compound")            # pay a base reward
RULE = ("stateful mostly-valid generator over stake (with merge of 1-3 positions, partial amounts), claim, compound (with merge), unstake (partial), "
        "merge of up to 5 payments with different indexes (also twice the same nonce), claimBoosted, position transfers between users followed by "
        "claim/unstake/merge/stake-with-merge/compound by the receiver, unbond (and unbond-token transfers), the whitelisted proxy acting for an "
        "original caller (stakeFarmThroughProxy, claimRewardsWithNewValue, unstakeFarmThroughProxy, and stakeFarm/claimRewards/unstakeFarm with an "
        "explicit original caller), admin reconfiguration, donations, block/epoch jumps; malformed share: non-whitelisted callers, more than held, "
        "foreign nonces (tools/sys_staking_pos.py); DSC in {1,10,1e6,1e12,1e18}, max APR 1..1e12, boosted on/off")


def _gen(args):
    seed, nops = args
    return (seed,) + tuple(sp.gen_history(seed, nops))


def budgets(tier):
    return (48, 40) if tier == "quick" else (1200, 60)


def strip(o):
    return {k: v for k, v in o.items() if k not in ("pre", "pos", "ub", "held", "ubheld", "attrs", "ubattrs")}


# ------------------------------------------------------------------ documented split / merge rules
def ceil_avg(v1, w1, v2, w2):
    return (v1 * w1 + v2 * w2 + (w1 + w2) - 1) // (w1 + w2)


def into_part(a, x):
    rps, comp, amt, owner = a
    if x == amt:
        return a
    return (rps, comp * x // amt, x, owner)


def merge(a, b):
    return (ceil_avg(a[0], a[2], b[0], b[2]), a[1] + b[1], a[2] + b[2], a[3])


def payments_of(op):
    k = op[0]
    if k in ("Stake", "StakeProxy"):
        return list(op[4])
    if k in ("Claim", "ClaimNewValue", "Unstake", "UnstakeProxy"):
        return [op[3]]
    if k == "Compound":
        return [op[2]] + list(op[3])
    if k == "Merge":
        return list(op[2])
    return []


def orig_caller(op):
    return op[2] if op[0] in ("Stake", "StakeProxy", "Claim", "ClaimNewValue", "Unstake", "UnstakeProxy") else op[1]


def expected_new_attrs(op, o):
    """(attributes the documented rules give for the position minted by this op, parts, ceil != floor somewhere)"""
    pre_at = o["pre"]["attrs"]
    k = op[0]
    u = orig_caller(op)
    if k in ("Stake", "StakeProxy"):
        base, rest = (o["rps"], 0, op[3], u), op[4]
    elif k in ("Claim", "ClaimNewValue"):
        a = pre_at.get(op[3][0])
        if not a:
            return None
        p = into_part(a, op[3][1])
        base, rest = (o["rps"], p[1], p[2], u), []
    elif k == "Compound":
        a = pre_at.get(op[2][0])
        if not a:
            return None
        p = into_part(a, op[2][1])
        r = o["left"]
        base, rest = (o["rps"], p[1] + r, p[2] + r, u), op[3]
    elif k == "Merge":
        a = pre_at.get(op[2][0][0])
        if not a:
            return None
        base, rest = into_part(a, op[2][0][1]), op[2][1:]
    else:
        return None
    parts = [base]
    cnf = False
    for (n, x) in rest:
        a = pre_at.get(n)
        if not a:
            return None
        p = into_part(a, x)
        if (base[0] * base[2] + p[0] * p[2]) % (base[2] + p[2]) != 0:
            cnf = True
        parts.append(p)
        base = merge(base, p)
    if k == "ClaimNewValue":
        base = (base[0], base[1], op[4], base[3])
    return base[:3] + (u,), parts, cnf


# ------------------------------------------------------------------ C07
def monitors_c07(cfg, op, o):
    out = []
    total = sum(o["held"].values())
    if total != o["supply"] or o["sc_farm"] != 0:
        out.append(("staking-supply-vs-positions", f"after {op}: farm token supply {o['supply']} != sum of position amounts held by accounts {total} (held by the contract itself: {o['sc_farm']})"))
    for u, t in o["utot"].items():
        s = sum(v for (n, h), v in o["held"].items() if v and o["attrs"].get(n) and o["attrs"][n][3] == u)
        if s != t:
            out.append(("staking-owner-total", f"after {op}: user {u} total farm position {t} != sum of live positions whose original_owner is {u}: {s}"))
    if o["ok"] and op[0] in POS_OPS:
        e = expected_new_attrs(op, o)
        got = o["new_pos"].get(o["outs"][0])
        if e and got:
            exp, parts, _ = e
            if tuple(got) != tuple(exp):
                out.append((f"staking-merged-attributes:{op[0]}", f"{op}: new position attributes {got}, split/merge rules give {exp}"))
            if op[0] != "ClaimNewValue":
                if got[2] != sum(p[2] for p in parts):
                    out.append((f"staking-merge-principal:{op[0]}", f"{op}: merged amount {got[2]} != sum of the parts {sum(p[2] for p in parts)}"))
                if got[0] * got[2] < sum(p[0] * p[2] for p in parts):
                    out.append((f"staking-merge-index-below-average:{op[0]}", f"{op}: merged index {got[0]} * amount {got[2]} < sum index*amount of the parts {sum(p[0] * p[2] for p in parts)}"))
            if got[1] != sum(p[1] for p in parts):
                out.append((f"staking-merge-compounded:{op[0]}", f"{op}: merged compounded reward {got[1]} != sum of the (floor) parts {sum(p[1] for p in parts)}"))
            if o["outs"][1] != got[2]:
                out.append((f"staking-minted-amount:{op[0]}", f"{op}: minted {o['outs'][1]} of the new nonce, attributes say {got[2]}"))
    return out


def nontrivial_c07(cfg, op, o):
    if not o["ok"] or op[0] not in POS_OPS + ("Unstake", "UnstakeProxy"):
        return None
    pre_at = o["pre"]["attrs"]
    pays = payments_of(op)
    u = orig_caller(op)
    foreign = any(pre_at.get(n) and pre_at[n][3] != u for n, _ in pays)
    partial = any(pre_at.get(n) and pre_at[n][2] != x for n, x in pays)
    e = expected_new_attrs(op, o) if op[0] in POS_OPS else None
    cnf = bool(e and e[2])
    if not (foreign or cnf or (partial and len(pays) > 1)):
        return None
    return ("staking-pos", op[0], foreign, partial, cnf, len(pays), cfg["dsc"])


# ------------------------------------------------------------------ C05
def monitors_c05(cfg, op, o):
    out = []
    if not o["ok"]:
        m = o["msg"].lower()
        if op[0] in sp.USER_OPS + ("Unbond",) and ("cannot subtract because result would be negative" in m or "panic" in m or "overflow" in m or "division by 0" in m):
            out.append((f"staking-counter-underflow:{op[0]}", f"{op} failed with '{o['msg']}'"))
        return out
    dsc = cfg["dsc"]
    if o["reserve"] != o["acc"] - o["paid"]:
        out.append(("staking-reserve-vs-accrued-minus-paid", f"after {op}: reserve {o['reserve']} != accrued {o['acc']} - paid {o['paid']}"))
    if o["pool"] > o["reserve"]:
        out.append(("staking-boosted-pools-exceed-reserve", f"after {op}: boosted pools {o['pool']} > reserve {o['reserve']}"))
    unfloored, floored = 0, 0
    for (n, h), v in o["held"].items():
        a = o["attrs"].get(n)
        if v and a:
            unfloored += v * max(0, o["rps"] - a[0])
            floored += v * max(0, o["rps"] - a[0]) // dsc
    if unfloored > dsc * (o["reserve"] - o["pool"]):
        out.append(("staking-reserve-does-not-cover-claims", f"after {op}: claimable {unfloored} > DSC*(reserve-pools) = {dsc * (o['reserve'] - o['pool'])}"))
    if floored + o["pool"] > o["reserve"]:
        out.append(("staking-reserve-does-not-cover-claims-floor", f"after {op}: sum of claimable base rewards {floored} + pools {o['pool']} > reserve {o['reserve']}"))
    ident = (o["supply"] - o["virt"]) + o["ubtot"] + (o["cap"] - o["acc"]) + o["reserve"] + o["donated"]
    if o["bal"] != ident:
        out.append(("staking-principal-not-backed", f"after {op}: balance {o['bal']} != principal {o['supply'] - o['virt']} + unbond {o['ubtot']} + unaccrued {o['cap'] - o['acc']} + reserve {o['reserve']} + donated {o['donated']}"))
    if o["acc"] > o["cap"]:
        out.append(("staking-accrued-exceeds-capacity", f"after {op}: accumulated {o['acc']} > capacity {o['cap']}"))
    return out


def nontrivial_c05(cfg, op, o):
    if not o["ok"] or op[0] not in sp.USER_OPS:
        return None
    merged = len(payments_of(op)) > (0 if op[0] in ("Stake", "StakeProxy") else 1)
    settled = o["rps"] > o["pre"]["rps"]
    if not (o["b"] > 0 or merged or settled or o["left"] > 0):
        return None
    return ("staking-pos", op[0], o["b"] > 0, merged, settled, o["left"] > o["b"], cfg["dsc"], len(str(o["supply"])) // 4)


# ------------------------------------------------------------------ C06
def monitors_c06(cfg, op, o):
    out = []
    pre, cp = o["pre"], o["pre_cfg"]
    if o["rps"] < pre["rps"]:
        out.append(("staking-index-decreased", f"{op}: index {pre['rps']} -> {o['rps']}"))
    if not o["ok"]:
        return out
    dsc = cfg["dsc"]
    if o["settles"]:
        tot = o["exp_total"]
        cut = 0 if (cp["pct"] == 0 or not cp["factors"]) else tot * cp["pct"] // MAXP
        inc = 0 if (pre["supply"] == 0 or tot == 0) else (tot - cut) * dsc // pre["supply"]
        if o["rps"] != pre["rps"] + inc:
            out.append((f"staking-index-growth:{op[0]}", f"{op} at block {o['blk']}: index {pre['rps']} -> {o['rps']}, expected +{inc} (accrual {tot}, supply {pre['supply']})"))
        else:
            # "supply" is what earns: the outstanding position amounts (the farm's own supply counter must equal them - C07)
            outstanding = sum(pre["held"].values())
            if outstanding != pre["supply"]:
                inc2 = 0 if (outstanding == 0 or tot == 0) else (tot - cut) * dsc // outstanding
                if inc2 != inc:
                    out.append((f"staking-index-growth-vs-outstanding-positions:{op[0]}",
                                f"{op} at block {o['blk']}: index {pre['rps']} -> {o['rps']} follows the farm's supply counter {pre['supply']}; the "
                                f"outstanding positions sum to {outstanding}, for which the increment is {inc2} (accrual {tot})"))
        if o["acc"] - pre["acc"] != tot:
            out.append((f"staking-accrual:{op[0]}", f"{op}: accumulated rewards grew by {o['acc'] - pre['acc']}, expected {tot}"))
        if o["blk"] > pre["last"] and o["last"] != o["blk"]:
            out.append(("staking-last-reward-block", f"{op}: last reward block {o['last']} after settling at block {o['blk']}"))
    elif o["rps"] != pre["rps"]:
        out.append((f"staking-index-changed-without-settlement:{op[0]}", f"{op}: index {pre['rps']} -> {o['rps']}"))
    k = op[0]
    if k in PAY_OPS:
        n0, x0 = payments_of(op)[0]
        a = pre["attrs"].get(n0)
        if a:
            base = x0 * (o["rps"] - a[0]) // dsc if o["rps"] > a[0] else 0
            if o["left"] - o["b"] != base:
                out.append((f"staking-base-reward-formula:{k}", f"{op}: reward {o['left']} (boosted {o['b']}), base formula gives {base} (index {o['rps']}, entry {a[0]}, DSC {dsc})"))
    if k in POS_OPS and k != "Merge":
        got = o["new_pos"].get(o["outs"][0])
        merged = payments_of(op) if k in ("Stake", "StakeProxy") else payments_of(op)[1:]
        if got and not merged and got[0] != o["rps"]:
            out.append((f"staking-entry-index:{k}", f"{op}: new position index {got[0]} != settled index {o['rps']}"))
    if k == "Compound":
        n0, x0 = op[2]
        got = o["new_pos"].get(o["outs"][0])
        r = o["left"]
        if o["supply"] != pre["supply"] + r:
            out.append(("staking-compound-supply", f"{op}: supply {pre['supply']} -> {o['supply']}, compounded reward {r}"))
        if got and got[2] != x0 + sp.ss.psum(op[3]) + r:
            out.append(("staking-compound-principal", f"{op}: new amount {got[2]} != paid in {x0 + sp.ss.psum(op[3])} + reward {r}"))
        if o["bal"] != pre["bal"]:
            out.append(("staking-compound-balance", f"{op}: staking-token balance changed {pre['bal']} -> {o['bal']}"))
    if o["pool"] > o["reserve"]:
        out.append(("staking-over-issued", f"{op}: pools {o['pool']} exceed reserve {o['reserve']}"))
    return out


def nontrivial_c06(cfg, op, o):
    if not o["ok"] or not o["settles"]:
        return None
    pre = o["pre"]
    k = op[0]
    if k in PAY_OPS:
        a = pre["attrs"].get(payments_of(op)[0][0])
        if a and o["rps"] > a[0]:
            inexact = (payments_of(op)[0][1] * (o["rps"] - a[0])) % cfg["dsc"] != 0
            return ("staking-pos-pay", k, inexact, o["left"] - o["b"] > 0, cfg["dsc"], len(str(pre["supply"])) // 4)
    if o["blk"] > pre["last"] and o["acc"] > pre["acc"] and pre["supply"] > 0:
        return ("staking-pos", k, cfg["dsc"], len(str(pre["supply"])) // 4, (o["rps"] - pre["rps"]) == 0)
    return None


def monitors_all(cfg, op, o):
    return monitors_c05(cfg, op, o) + monitors_c06(cfg, op, o) + monitors_c07(cfg, op, o)


def nontrivial_all(cfg, op, o):
    return nontrivial_c07(cfg, op, o) or nontrivial_c05(cfg, op, o) or nontrivial_c06(cfg, op, o)


# ------------------------------------------------------------------ exploration
def explore_staking_pos(pid, tier, seed, monitor, nontrivial, rule=RULE, model_ok=True, focus=False, scale=1.0):
    ex = Exploration()
    ex.rule = rule
    nh, nops = budgets(tier)
    nh = max(8, int(nh * scale))
    seeds = [seed * 100000 + 70000 + i for i in range(nh)]
    hist = []
    with concurrent.futures.ProcessPoolExecutor(max_workers=16) as pool:
        for sd, cfg, trace in pool.map(_gen, [(s, nops) for s in seeds], chunksize=4):
            hist.append((sd, cfg, trace))
    terms = []
    for sd, cfg, trace in hist:
        tr = [(op, o) for op, o in trace if o is not None]
        ex.histories += 1
        ex.evaluations += len(tr)
        ops_all = [t[0] for t in trace]
        for idx, (op, o) in enumerate(trace):
            if o is None:
                continue
            ex.count("stakingpos:" + op[0] + (":ok" if o["ok"] else ":err"))
            if not o["ok"]:
                ex.count("stakingpos-err:" + o["msg"][:40])
            else:
                if o.get("b", 0) > 0:
                    ex.count("stakingpos:boosted-payout>0")
                if o.get("left", 0) > o.get("b", 0):
                    ex.count("stakingpos:base-reward>0")
                pre_at = o["pre"]["attrs"]
                if any(pre_at.get(n) and pre_at[n][3] != orig_caller(op) for n, _ in payments_of(op)):
                    ex.count("stakingpos:position-of-another-owner-used")
                if len(payments_of(op)) > 1:
                    ex.count("stakingpos:several-positions-paid-in")
            k = nontrivial(cfg, op, o)
            if k is not None:
                ex.nontrivial.add(k)
            for key, what in monitor(cfg, op, o):
                ex.failures.append(dict(key=key, what=what, replay=dict(system="stakingpos", cfg=cfg, ops=ops_all[:idx + 1], seed=sd, observed=strip(o))))
        terms.append(sp.coq_history(cfg, tr))
        if len(ex.samples) < 3:
            ex.samples.append(dict(seed=sd, cfg=cfg, ops=[[op, "ok" if o["ok"] else o["msg"], o["outs"]] for op, o in tr[:12]]))
    if model_ok:
        res = coqrun.eval_terms(IMPORTS, terms, tag=pid + "sp", per_file=max(1, min(8, len(terms) // 16 + 1)))
        ex.traces_validated = len(res)
        for (sd, cfg, trace), r in zip(hist, res):
            if r:
                tr = [(op, o) for op, o in trace if o is not None]
                i = r[0]
                ex.disagreements.append(dict(where="Run.StakingPosRun.check_trace", seed=sd, cfg=cfg, index=i, field=r[1],
                                             model=r[2], impl=r[3], op=tr[i][0], observed=strip(tr[i][1]),
                                             ops=[t[0] for t in trace]))
    return ex


def replay_staking_pos(data, monitor):
    rp = data["replay"]
    trace = sp.replay_history(rp["cfg"], rp["ops"])
    fails = []
    for op, o in trace:
        if o is None:
            continue
        for key, what in monitor(rp["cfg"], op, o):
            fails.append(dict(key=key, what=what))
    return fails


def merge_exploration(ex, ex2):
    """fold a staking-position exploration into a property's main exploration (see tools/props/c06.py)"""
    ex.evaluations += ex2.evaluations
    ex.histories += ex2.histories
    ex.nontrivial |= ex2.nontrivial
    ex.failures += ex2.failures
    ex.disagreements += ex2.disagreements
    ex.traces_validated += ex2.traces_validated
    ex.samples += ex2.samples[:1]
    for k, v in ex2.counters.items():
        ex.counters[k] = ex.counters.get(k, 0) + v
    return ex
