"""C12 — staking pays only from capacity, within the APR cap, and honours unbonding."""
from props.staking_common import explore_staking, replay_staking, index_monitor, MAXP, BY

ASSUMPTIONS = ["A-VM", "virtual principal (staked through the whitelisted proxy) is tracked as a ghost by the harness",
               "position algebra of the shared farm base is covered by C05-C07 on dex/farm; here positions are checked by the index/base-reward monitors"]
RULE = ("stateful mostly-valid generator over stake (with merge), stake/unstake/claim through the whitelisted proxy, claim, compound, unstake (partial), "
        "unbond before/after the unlock epoch, merge, claimBoosted, top-up, withdrawRewards around the remaining capacity, APR/rate/unbond/percentage changes, "
        "donations and block/epoch jumps (tools/sys_staking.py); APR in {1..1e12} basis points, unbond period 0..30; non-trivial = accrual capped by APR or by capacity, "
        "unbond attempts within one epoch of the unlock epoch, withdrawals within 1 unit of the remaining capacity, proxy operations; distinct by (op, which bound binds, flags, magnitudes)")


def monitor(cfg, op, o):
    out = list(index_monitor(cfg, op, o))
    pre, cp = o["pre"], o["pre_cfg"]
    if o["acc"] > o["cap"]:
        out.append(("accrued-exceeds-capacity", f"after {op}: accumulated {o['acc']} > capacity {o['cap']}"))
    ident = (o["supply"] - o["virt"]) + o["ubtot"] + (o["cap"] - o["acc"]) + o["reserve"] + o["donated"]
    if o["bal"] != ident:
        out.append(("balance-identity", f"after {op}: balance {o['bal']} != principal {o['supply'] - o['virt']} + unbond {o['ubtot']} + unaccrued {o['cap'] - o['acc']} + reserve {o['reserve']} + donated {o['donated']}"))
    if not o["ok"]:
        return out
    d = max(0, o["blk"] - pre["last"])
    acc = o["acc"] - pre["acc"]
    if o["settles"]:
        if acc * MAXP * BY > d * pre["supply"] * cp["apr"]:
            out.append(("apr-cap-exceeded", f"{op}: accrued {acc} over {d} blocks with supply {pre['supply']} and max APR {cp['apr']}"))
        if acc > d * cp["rate"] or (acc > 0 and not cp["produce"]):
            out.append(("rate-exceeded", f"{op}: accrued {acc} over {d} blocks at rate {cp['rate']} (produce {cp['produce']})"))
    elif acc != 0:
        out.append(("accrual-without-settlement", f"{op}: accumulated rewards changed by {acc}"))
    k = op[0]
    if k == "Unbond":
        _, c, n, amt = op
        unlock = pre["ub"].get(n)
        if unlock is not None and o["ep"] < unlock:
            out.append(("unbond-before-unlock", f"{op} at epoch {o['ep']} succeeded, unlock epoch is {unlock}"))
        if o["outs"] != [amt]:
            out.append(("unbond-amount", f"{op}: paid {o['outs']}, token amount {amt}"))
    if k in ("Unstake", "UnstakeProxy"):
        n = o["outs"][0]
        want_amt = op[2][1] if k == "Unstake" else op[3]
        if o["outs"][1] != want_amt:
            out.append(("unbond-token-amount", f"{op}: unbond token amount {o['outs'][1]}, expected {want_amt}"))
        if o["new_ub"].get(n) != o["ep"] + cp["minub"]:
            out.append(("unbond-unlock-epoch", f"{op} at epoch {o['ep']}: unbond token unlocks at {o['new_ub'].get(n)}, min unbond epochs {cp['minub']}"))
    if k == "Withdraw":
        _, c, w = op
        if c != 100:
            out.append(("withdraw-by-non-admin", f"{op} succeeded"))
        if w > pre["cap"] - o["acc"]:
            out.append(("withdraw-accrued-capacity", f"{op}: withdrew {w}, un-accrued capacity was {pre['cap'] - o['acc']}"))
        if o["cap"] != pre["cap"] - w:
            out.append(("withdraw-capacity", f"{op}: capacity {pre['cap']} -> {o['cap']}"))
    return out


def nontrivial(cfg, op, o):
    if not o["ok"]:
        if op[0] == "Unbond" and o["pre"]["ub"].get(op[2]) is not None:
            return ("Unbond-rejected", o["ep"] - o["pre"]["ub"][op[2]] >= -1)
        return None
    pre, cp = o["pre"], o["pre_cfg"]
    k = op[0]
    if o["settles"] and o["blk"] > pre["last"] and cp["produce"]:
        d = o["blk"] - pre["last"]
        unb = cp["rate"] * d
        aprb = (pre["supply"] * cp["apr"] // MAXP // BY) * d
        rem = pre["cap"] - pre["acc"]
        tot = o["acc"] - pre["acc"]
        binds = "apr" if tot == aprb and aprb < unb else ("cap" if tot == rem and rem < min(unb, aprb) else ("rate" if tot == unb else "none"))
        if binds in ("apr", "cap"):
            return (k, binds, len(str(pre["supply"])) // 4, len(str(cp["apr"])))
    if k == "Unbond":
        return ("Unbond", o["ep"] - pre["ub"].get(op[2], 0) <= 1, op[3] == pre["ubheld"].get((op[2], op[1])))
    if k == "Withdraw":
        return ("Withdraw", abs((pre["cap"] - o["acc"]) - op[2]) <= 1)
    if k in ("StakeProxy", "UnstakeProxy", "ClaimNewValue"):
        return (k, len(str(o["supply"])) // 4)
    if k == "Unstake":
        return (k, cp["minub"], op[2][1] == pre["pos"].get(op[2][0], (0, 0, 0, 0))[2])
    return None


def explore(tier, seed, model_ok=True, focus=False):
    ex = explore_staking("C12", tier, seed, monitor, nontrivial, RULE, model_ok, focus)
    # farm-staking as ONE closed model (Model/StakingFull.v): balance identity with the weekly pools itemised
    from props import staking_full_common as sfc
    return sfc.merge_exploration(ex, sfc.explore_staking_full("C12", tier, seed, sfc.monitors_for_c12, sfc.nontrivial_all, sfc.RULE, model_ok, focus, scale=0.5))


def replay(data):
    if data.get("replay", {}).get("system") == "staking-full":
        from props import staking_full_common as sfc
        return sfc.replay_staking_full(data, sfc.monitors_for_c12)
    return replay_staking(data, monitor)
