"""C16 — Proxy DEX: locked tokens put to work stay locked; every wrapped token is backed; base asset
minted on entry is matched on exit by base asset / locked tokens burned, with the energy reduced by
exactly the burned tokens' contribution.

Monitors read only real observables: payments returned by the *Proxy endpoints, ESDT balances of
the proxy and of the users, attributes of the wrapped tokens (token data), global supplies (sum of
balances over every account), pair reserves, `getEnergyEntryForUser` of the energy factory."""
import json, concurrent.futures
import sys_proxydex as sp
import coqrun
from framework import Exploration

ASSUMPTIONS = ["A-VM", "A-ENV-C16: pair / farms / energy factory are environment: their responses obey the interface laws "
               "listed in coq/Props/C16.v (checked on every real response, field 900 of Run.ProxyDexRun); legacy locked token not modelled"]
IMPORTS = "Base.Prelude Gen.Params Model.ProxyDex Run.ProxyDexRun"
RULE = ("stateful generator over the composed real system (pair + base-asset farm + LP farm, both with locked rewards, + energy "
        "factory + proxy_dex), 3 users + an outside trader moving the pool price both ways, epochs advancing (penalty window, expired "
        "locks): addLiquidityProxy (either side binding, leftovers, with merge), partial/full removeLiquidityProxy, enter/exit/claim "
        "with locked tokens and wrapped LP (with merge), both merge endpoints, both increase-energy endpoints, transfers of wrapped "
        "tokens between users, whitelist changes, plus a malformed stream; non-trivial = successful operation in which rounding, a "
        "penalty, a pool shortfall/surplus, a merge of distinct nonces or an energy update matters; distinct by (endpoint, branch "
        "flags, magnitude classes)")
LOCKED = sp.LOCKED


def budgets(tier):
    return (48, 40) if tier == "quick" else (1600, 60)


def strip(o):
    return {k: v for k, v in o.items() if k not in ("pre", "wlp_tab", "wfm_tab", "unlock_tab")}


def rule3(total, cur, full):
    return sp.rule3(total, cur, full)


# ------------------------------------------------------------------ the property's own predicates
def backing(o):
    """every outstanding wrapped LP / wrapped farm token is backed by what the proxy holds (evaluated on real balances)"""
    out = []
    wlp, wfm = o["wlp_tab"], o["wfm_tab"]
    # escrowed wrapped LP tokens and locked tokens recorded by outstanding wrapped farm tokens
    need_wlp, need_locked, need_farm = {}, {}, {}
    for m, w in wfm.items():
        sup = o["supfm"].get(m, 0)
        if sup == 0:
            continue
        key = w["f"] * 2 + (0 if w["ft"] == sp.FARML else 1)
        need_farm[key] = need_farm.get(key, 0) + sup
        part = w["P"] if sup == w["T"] else w["P"] * sup // w["T"]
        if w["pt"] == LOCKED:
            need_locked[w["pn"]] = need_locked.get(w["pn"], 0) + part
        else:
            need_wlp[w["pn"]] = need_wlp.get(w["pn"], 0) + part
    user_lp = 0
    for n, w in wlp.items():
        held = sum(v for k, v in o["hlp"].items() if k // 16 == n)
        user_lp += held
        live = held + need_wlp.get(n, 0)
        if live:
            part = w["L"] if live == w["T"] else w["L"] * live // w["T"]
            need_locked[w["k"]] = need_locked.get(w["k"], 0) + part
    if o["lp"] < user_lp:
        out.append(("backing-lp", f"proxy holds {o['lp']} LP tokens, users hold {user_lp} wrapped LP tokens"))
    for key, v in need_farm.items():
        if o["farm"].get(key, 0) < v:
            out.append(("backing-farm-token", f"farm token key {key}: proxy holds {o['farm'].get(key, 0)}, wrapped farm tokens outstanding {v}"))
    for n, v in need_wlp.items():
        if o["pwlp"].get(n, 0) < v:
            out.append(("backing-escrowed-wrapped-lp", f"wrapped LP nonce {n}: proxy holds {o['pwlp'].get(n, 0)}, recorded in outstanding wrapped farm tokens {v}"))
    for k, v in need_locked.items():
        if o["locked"].get(k, 0) < v:
            out.append(("backing-locked", f"locked nonce {k}: proxy holds {o['locked'].get(k, 0)}, recorded in outstanding wrapped tokens {v}"))
    return out


def energy_after(pre, burned, unlock, now, reward=(0, 0), reward_unlock=0):
    """expected entry after the proxy's deduction, from the factory's view before the operation (same epoch)"""
    a, u, t = pre
    ra = reward[1]
    if ra > 0:
        a += ra * (reward_unlock - now) if reward_unlock > now else 0
        t += ra
    if burned > 0:
        a -= burned * (unlock - now)
        t -= burned
    return (a, u, t)


def monitor(cfg, op, o):
    out = list(backing(o))
    k = op[0]
    if not o["ok"]:
        return out
    pre = o["pre"]
    now = o["env"]["now"]
    outs = o["outs"]
    u = op[1]
    dcomb = o["dbase"] + o["dlocked"]
    # base asset reaches a user only as pool surplus of removeLiquidityProxy
    if k in ("AddLiq", "EnterFarm", "ExitFarm", "Claim", "MergeWlp", "MergeWfm", "IncLp", "IncFm"):
        if any(p[0] == 0 and p[2] > 0 for p in outs):
            out.append(("base-asset-paid-out", f"{op}: returned base asset {outs}"))
        if o["ubase"][u] > pre["ubase"][u]:
            out.append(("base-asset-paid-out", f"{op}: caller's base asset balance rose by {o['ubase'][u] - pre['ubase'][u]}"))
    if k == "RemoveLiq":
        p = op[3]
        w = o["wlp_tab"][p[1]]
        lp_part = rule3(w["T"], p[2], w["L"])
        rb = pre["rbase"] - o["rbase"]
        ro = pre["rother"] - o["rother"]
        exp_locked, exp_base = min(rb, lp_part), max(0, rb - lp_part)
        got_locked = sum(x[2] for x in outs if x[0] == 2)
        got_base = sum(x[2] for x in outs if x[0] == 0)
        if any(x[0] == 2 and x[2] > 0 and x[1] != w["k"] for x in outs):
            out.append(("remove-locked-nonce", f"{op}: locked tokens returned with another nonce than recorded {w['k']}: {outs}"))
        if got_locked != exp_locked or o["ulocked"][u].get(w["k"], 0) - pre["ulocked"][u].get(w["k"], 0) != exp_locked:
            out.append(("remove-locked-amount", f"{op}: locked returned {got_locked}, expected min(received {rb}, locked part {lp_part})"))
        if got_base != exp_base or o["ubase"][u] - pre["ubase"][u] != exp_base:
            out.append(("remove-base-surplus", f"{op}: base asset paid {got_base}, expected max(0, {rb} - {lp_part})"))
        if o["uother"][u] - pre["uother"][u] != ro:
            out.append(("remove-other-token", f"{op}: other token received by caller {o['uother'][u] - pre['uother'][u]}, pool paid {ro}"))
        if dcomb != -lp_part:
            out.append(("remove-mint-burn", f"{op}: combined base+locked supply changed by {dcomb}, locked part (base minted on entry) {lp_part}"))
        burned = max(0, lp_part - rb)
        if -o["dlocked"] != burned:
            out.append(("remove-locked-burn", f"{op}: locked supply fell by {-o['dlocked']}, expected {burned}"))
        exp = energy_after(pre["energy"][u], burned, o["unlock_tab"].get(w["k"], 0), now)
        if o["energy"][u] != exp:
            out.append(("remove-energy", f"{op}: energy entry {o['energy'][u]}, expected {exp} (burned {burned})"))
    elif k == "AddLiq":
        p1, p2 = op[3], op[4]
        pl = p1 if p1[0] == 2 else p2
        used = pre["ulocked"][u].get(pl[1], 0) - o["ulocked"][u].get(pl[1], 0)
        if o["dbase"] != used or o["dlocked"] != 0:
            out.append(("add-mint-burn", f"{op}: base supply +{o['dbase']}, locked supply {o['dlocked']}, caller's locked tokens used {used}"))
        if o["rbase"] - pre["rbase"] != used:
            out.append(("add-locked-used", f"{op}: pool took {o['rbase'] - pre['rbase']} base asset, caller gave up {used} locked tokens"))
        if not op[5]:
            n = max(o["new_wlp"])
            w = o["new_wlp"][n]
            if (w["k"], w["L"], w["T"]) != (pl[1], used, o["S"] - pre["S"]):
                out.append(("add-attributes", f"{op}: wrapped LP attributes {w}, expected locked ({pl[1]}, {used}) lp {o['S'] - pre['S']}"))
    elif k == "EnterFarm":
        p = op[3]
        ra = outs[1][2]
        if p[0] == 2:
            if o["dbase"] != p[2] or o["dlocked"] != ra:
                out.append(("enter-mint", f"{op}: base supply {o['dbase']}, locked supply {o['dlocked']}; expected +{p[2]} and rewards {ra}"))
        elif o["dbase"] != 0 or o["dlocked"] != ra:
            out.append(("enter-mint", f"{op}: base supply {o['dbase']}, locked supply {o['dlocked']}; expected 0 and rewards {ra}"))
    elif k == "ExitFarm":
        p = op[3]
        w = o["wfm_tab"][p[1]]
        part = rule3(w["T"], p[2], w["P"])
        ra, rk = outs[1][2], outs[1][1]
        first = outs[0]
        if w["pt"] == LOCKED:
            pen = part - first[2]
            if first[0] != 2 or (first[2] > 0 and first[1] != w["pn"]) or pen < 0:
                out.append(("exit-locked-out", f"{op}: returned {first}, recorded locked nonce {w['pn']} part {part}"))
            if o["ulocked"][u].get(w["pn"], 0) - pre["ulocked"][u].get(w["pn"], 0) != first[2] + (ra if rk == w["pn"] else 0):
                out.append(("exit-locked-out", f"{op}: caller's locked balance changed by another amount than returned {first[2]}"))
            if o["dbase"] != -p[2]:
                out.append(("exit-base-burn", f"{op}: base supply changed by {o['dbase']}, base minted on entry for this part {p[2]}"))
            if o["dlocked"] != ra - pen:
                out.append(("exit-locked-burn", f"{op}: locked supply changed by {o['dlocked']}, expected rewards {ra} - penalty {pen}"))
            burned, kk = pen, w["pn"]
        else:
            if first[0] != 3:
                out.append(("exit-wrapped-lp-out", f"{op}: returned {first}, recorded wrapped LP nonce {w['pn']}"))
            wl = o["wlp_tab"][w["pn"]]
            if first[1] == w["pn"]:          # no penalty: the recorded wrapped LP tokens come back as they are
                burned = 0
            else:
                burned = rule3(wl["T"], part, wl["L"]) - o["wlp_tab"][first[1]]["L"]
            kk = wl["k"]
            if o["dbase"] != 0 or o["dlocked"] != ra - burned or burned < 0:
                out.append(("exit-locked-burn", f"{op}: base supply {o['dbase']}, locked supply {o['dlocked']}; expected 0 and rewards {ra} - {burned}"))
        exp = energy_after(pre["energy"][u], burned, o["unlock_tab"].get(kk, 0), now, (rk, ra), o["unlock_tab"].get(rk, 0))
        if burned > 0 and o["energy"][u] != exp:
            out.append(("exit-energy", f"{op}: energy entry {o['energy'][u]}, expected {exp} (burned {burned}, rewards {ra})"))
    elif k in ("MergeWlp", "MergeWfm", "IncLp", "IncFm", "Claim"):
        # nothing is minted or burned by the proxy; the only new locked tokens are farm rewards (returned by claim;
        # on a farm-token merge the farm pays boosted rewards too)
        ra = outs[1][2] if k == "Claim" else (o["env"]["rew"][1] if k == "MergeWfm" else 0)
        if o["dbase"] != 0 or o["dlocked"] != ra:
            out.append(("merge-supply", f"{op}: base supply {o['dbase']}, locked supply {o['dlocked']} (rewards {ra})"))
    return out


def mag(n):
    return min(8, len(str(abs(n))) // 3)


def nontrivial(cfg, op, o):
    if not o["ok"]:
        return None
    k = op[0]
    if k == "RemoveLiq":
        p = op[3]
        w = o["wlp_tab"][p[1]]
        lp_part = rule3(w["T"], p[2], w["L"])
        rb = o["pre"]["rbase"] - o["rbase"]
        inexact = p[2] != w["T"] and (w["L"] * p[2]) % w["T"] != 0
        expired = o["unlock_tab"].get(w["k"], 0) < o["env"]["now"]
        return (k, (rb > lp_part) - (rb < lp_part), p[2] == w["T"], inexact, expired, mag(p[2]), mag(lp_part))
    if k == "ExitFarm":
        p = op[3]
        w = o["wfm_tab"][p[1]]
        first = o["outs"][0]
        pen = rule3(w["T"], p[2], w["P"]) - first[2]
        return (k, w["pt"] == LOCKED, pen > 0, p[2] == w["T"], o["outs"][1][2] > 0, mag(p[2]), mag(pen))
    if k == "AddLiq":
        return (k, o["outs"][1][2] > 0, o["outs"][2][2] > 0, len(op[5]), mag(op[3][2]), mag(o["outs"][0][2]))
    if k == "EnterFarm":
        return (k, op[3][0], len(op[4]), o["outs"][1][2] > 0, mag(op[3][2]))
    if k in ("MergeWlp", "MergeWfm"):
        ps = op[2] if k == "MergeWlp" else op[3]
        if len({p[1] for p in ps}) < 2:
            return None
        return (k, len(ps), mag(o["outs"][0][2]), tuple(sorted(mag(p[2]) for p in ps)))
    if k in ("IncLp", "IncFm", "Claim"):
        p = op[2] if k != "Claim" else op[3]
        return (k, op[-1] if k != "Claim" else 0, mag(p[2]))
    return None


def distinguishing(op, o, key):
    """per-property distinguishing-case counters (coverage.counters)"""
    k = op[0]
    c = []
    if k == "RemoveLiq":
        c.append("case:remove:" + {1: "pool-surplus-paid-as-base", -1: "pool-shortfall-burns-locked", 0: "exact"}[key[1]])
        if key[3]: c.append("case:remove:inexact-part")
        if key[4] and key[1] == -1: c.append("case:remove:energy-refund-expired-lock")
    elif k == "ExitFarm":
        if key[2]: c.append("case:exit:penalty-" + ("locked" if key[1] else "wrapped-lp"))
        if not key[3]: c.append("case:exit:partial")
    elif k == "AddLiq":
        if key[1]: c.append("case:add:locked-leftover-returned")
        if key[3]: c.append("case:add:with-merge")
    elif k == "EnterFarm" and key[2]:
        c.append("case:enter:with-merge")
    elif k == "MergeWfm" and o["env"]["rew"][1] > 0:
        c.append("case:merge-farm:boosted-rewards-kept-by-proxy")
    return c


# ------------------------------------------------------------------ exploration
def _gen(args):
    seed, nops = args
    cfg, trace = sp.gen_history(seed, nops)
    return seed, cfg, trace


def explore(tier, seed, model_ok=True, focus=False):
    ex = Exploration()
    ex.rule = RULE
    nh, nops = budgets(tier)
    seeds = [seed * 100000 + i for i in range(nh)]
    hist = []
    with concurrent.futures.ProcessPoolExecutor(max_workers=16) as pool:
        for sd, cfg, trace in pool.map(_gen, [(s, nops) for s in seeds], chunksize=2):
            hist.append((sd, cfg, trace))
    terms = []
    for sd, cfg, trace in hist:
        tr = [(op, o) for op, o in trace if o is not None]
        ex.histories += 1
        ex.evaluations += len(tr)
        ops_all = [t[0] for t in trace]
        for j, (op, o) in enumerate(trace):
            if o is None:
                ex.count(op[0])
                continue
            ex.count(op[0] + (":ok" if o["ok"] else ":err"))
            if not o["ok"]:
                ex.count("err:" + o["msg"][:40])
                if o.get("unchanged") is False:
                    ex.failures.append(dict(key="failed-tx-changed-state", what=f"{op} failed but the proxy's storage/balances changed",
                                            replay=dict(cfg=cfg, ops=ops_all[:j + 1], seed=sd)))
            key = nontrivial(cfg, op, o)
            if key is not None:
                ex.nontrivial.add(key)
                for c in distinguishing(op, o, key):
                    ex.count(c)
            for fk, what in monitor(cfg, op, o):
                ex.failures.append(dict(key=fk, what=what, replay=dict(cfg=cfg, ops=ops_all[:j + 1], seed=sd,
                                                                         observed=json.loads(json.dumps(strip(o), default=str)))))
        terms.append(sp.coq_history(cfg, tr))
        if len(ex.samples) < 3:
            ex.samples.append(dict(seed=sd, cfg=cfg, ops=[[op, "ok" if o["ok"] else o["msg"], o["outs"]] for op, o in tr[:12]]))
    if model_ok:
        res = coqrun.eval_terms(IMPORTS, terms, tag="C16", per_file=max(1, min(25, len(terms) // 16 + 1)))
        ex.traces_validated = len(res)
        for (sd, cfg, trace), r in zip(hist, res):
            if r:
                tr = [(op, o) for op, o in trace if o is not None]
                i = r[0]
                ex.disagreements.append(dict(where="Run.ProxyDexRun.check_trace", seed=sd, cfg=cfg, index=i, field=r[1],
                                             model=r[2], impl=r[3], op=tr[i][0],
                                             observed=json.loads(json.dumps(strip(tr[i][1]), default=str)),
                                             ops=[t[0] for t in trace]))
    # closed composition proxy_dex x pair x two locked farms x energy factory (Model/ProxyClosed.v)
    from props import proxy_closed_common as pcc
    ex = pcc.merge(ex, pcc.explore_proxy_closed("C16", tier, seed, model_ok, focus))
    # two intermediated pairs: per-pair backing, merges across pairs / farms must be refused (Model/ProxyMulti.v)
    from props import proxy_multi_common as pmc
    ex = pmc.merge(ex, pmc.explore_multi("C16", tier, seed, model_ok, focus))
    return ex


def replay(data):
    if data.get("replay", {}).get("system") == "proxy_multi":
        from props import proxy_multi_common as pmc
        return pmc.replay_multi(data)
    if data.get("replay", {}).get("system") == "proxy_closed":
        from props import proxy_closed_common as pcc
        return pcc.replay_proxy_closed(data)
    rp = data["replay"]
    trace = sp.replay_history(rp["cfg"], rp["ops"])
    fails = []
    for op, o in trace:
        if o is None:
            continue
        for key, what in monitor(rp["cfg"], op, o):
            fails.append(dict(key=key, what=what))
    return fails
