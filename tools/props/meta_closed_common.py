"""C15, closed composition and on-behalf endpoints of farm-staking-proxy: exploration driver and monitors evaluated on REAL
observations (tools/sys_meta_closed.py; Coq side Model/MetaClosed.v, Model/MetaBehalf.v, Run/MetaClosedRun.v).

Monitors (keys are stable identifiers of the failing clause).
 Part A - stakeFarmOnBehalf / claimDualYieldOnBehalf (characterisation):
  ob-unauthorised-accepted:<ep>        succeeded although the hub's STORAGE does not list the caller for the user / blacklists it
  ob-foreign-owner-accepted:<ep>@i     succeeded although payment i (LP-farm position / underlying positions of a dual-yield
                                       token) does not record the user as original owner (or the two underlying owners differ)
  ob-reward-not-to-user:<ep>           the user's LOCKED / staking-token balance did not grow by the reported rewards
  ob-reward-to-agent:<ep>              the caller's LOCKED / staking-token balance moved although it is not the user
  ob-dual-yield-not-to-agent:<ep>      the new dual-yield token is not held by the caller in the reported amount
  ob-agent-payment:<ep>                the caller's position / dual-yield balances did not drop by exactly the payments
  ob-third-party-balance:<ep>          a balance of somebody else moved
  ob-new-position-owner:<ep>           the farm positions recorded in the new dual-yield token do not record the user (law L8)
  ob-failed-state-changed:<ep>         a failed on-behalf call changed an observable of the proxy / the farms / the pair
  hub-view-vs-storage                  isWhitelisted(user, agent) differs from (listed in storage and not blacklisted in storage)
  + every C15 monitor of tools/props/c15.py on every operation (backing per nonce, fungible balances 0, parts <= whole, ...)
 Part B - cross-contract conservation (only the composition can state them):
  xc-lp-farm-supply-vs-holdings        LP farm token supply != sum of the LP-farm positions held by users, agents and the proxy
                                       (so the proxy's tokens ARE outstanding positions of the LP farm, with the proxy as holder)
  xc-staking-supply-vs-proxy-holdings  staking farm token supply != sum of the staking positions the proxy holds
  xc-virtual-principal                 staking farm token supply (all virtual in this world) != sum over dual-yield nonces of the
                                       outstanding amounts (= staking amounts recorded in outstanding dual-yield tokens)
  xc-lp-principal                      LP tokens the LP farm holds != LP farm token supply (no compounding: farming != reward token)
  xc-boosted-consistent                the boosted payout derived from the pool views differs from the one the endpoint reported
  xc-failed-state-changed              a failed transaction changed a callee observable
"""
import concurrent.futures
import sys_meta_closed as mc
import coqrun
from framework import Exploration
from props import c15
from sys_meta_closed import TK_LPF, TK_SF, TK_DY, TK_REW, TK_STK, USERS, AGENTS, ACCTS, part_of

RULE = ("closed composed histories on the real pair + farm-with-locked-rewards + farm-staking + farm-staking-proxy + permissions-hub: "
        "3 users, 2 agents (authorised by one / several users, revoked and re-listed, blacklisted), a trader; every transaction is an "
        "observed operation: stake (with merged dual-yield tokens) / claim / unstake by users, stakeFarmOnBehalf / claimDualYieldOnBehalf "
        "by agents holding the users' LP-farm positions and dual-yield tokens (0-3 additional tokens; a share unauthorised, with a "
        "foreign owner at some payment index, with mismatching underlying owners, malformed), dual-yield and LP-farm token transfers "
        "between users and agents, hub operations by users / owner / others, the users' own claimRewards / exitFarm / enterFarm on the "
        "LP farm, add liquidity, swaps moving the price both ways, time (blocks, rounds, epochs / weeks). non-trivial = on-behalf call by "
        "(endpoint, ok, authorised, #payments, foreign index, rewards > 0, boosted > 0), ordinary proxy operation by the C15 classes, "
        "hub operation by (kind, ok)")
CALLEE_KEYS = ("lx", "sx", "pairx", "lheld", "ubheld", "lplp")


def budgets(tier):
    return (20, 40) if tier == "quick" else (400, 60)


def endpoint(k):
    return "stakeFarmOnBehalf" if k == "StakeOB" else "claimDualYieldOnBehalf"


def ob_facts(op, o):
    """(agent, user, payments, [index of every payment whose recorded owner(s) are not the user], authorised in storage)"""
    pre, m = o["pre"], o["meas"]
    k, a = op[0], op[1]
    pays = [tuple(p) for p in (op[3] if k == "StakeOB" else op[2])]
    owners = m["owners"]
    if k == "StakeOB":
        u = op[2]
    else:
        ow = owners[0] if owners else None
        u = ow[0] if (isinstance(ow, (tuple, list)) and ow[0] == ow[1] and ow[0] not in (None, 0, -1)) else None
    foreign = []
    for i, ow in enumerate(owners):
        if isinstance(ow, (tuple, list)):
            if not (ow[0] == ow[1] == u) or u in (None, 0, -1):
                foreign.append(i)
        elif ow != u or u in (None, 0, -1):
            foreign.append(i)
    authorised = bool(u is not None and pre["listed"].get((u, a), False) and not pre["black"].get(a, False))
    return a, u, pays, foreign, authorised


def monitor(cfg, op, o):
    out = []
    k = op[0]
    pre = o["pre"]
    # ---------------------------------------------------------------- part B: cross-contract conservation
    lx, sx = o["lx"], o["sx"]
    tot_l = sum(o["lheld"].values())
    if tot_l != lx["supply"]:
        out.append(("xc-lp-farm-supply-vs-holdings", f"{op}: LP farm token supply {lx['supply']}, positions held by users / agents / proxy {tot_l}"))
    tot_s = sum(v for n, v in o["sf"].items())
    if tot_s != sx["supply"]:
        out.append(("xc-staking-supply-vs-proxy-holdings", f"{op}: staking farm token supply {sx['supply']}, staking positions the proxy holds {tot_s}"))
    tot_dy = sum(o["sup"].values())
    if tot_dy != sx["supply"]:
        out.append(("xc-virtual-principal", f"{op}: staking farm supply (virtual principal) {sx['supply']}, outstanding dual-yield amounts {tot_dy}"))
    if o["lplp"] != lx["supply"]:
        out.append(("xc-lp-principal", f"{op}: the LP farm holds {o['lplp']} LP tokens, its farm token supply is {lx['supply']}"))
    if not o["ok"]:
        for key in CALLEE_KEYS:
            if o[key] != pre[key]:
                out.append(("xc-failed-state-changed", f"failed {op} ({o['msg']}) changed {key}: {pre[key]} -> {o[key]}"))
    # the hub's answer is its stored state
    for (uu, aa), v in o["wl"].items():
        if v != (o["listed"][(uu, aa)] and not o["black"][aa]):
            out.append(("hub-view-vs-storage", f"after {op}: isWhitelisted({uu}, {aa}) = {v}, stored: listed {o['listed'][(uu, aa)]}, blacklisted {o['black'][aa]}"))
            break
    # ---------------------------------------------------------------- C15 on every operation
    if k in ("Stake", "Claim", "Unstake"):
        out += c15.monitor(cfg, op, o)
        if o["ok"]:
            rep = (o["outs"][2], o["outs"][3]) if k == "Stake" else None
            if rep and (o["bs"], o["bl"]) != rep and cfg["boost"]:
                out.append(("xc-boosted-consistent", f"{op}: boosted payouts from the pool views (staking {o['bs']}, LP {o['bl']}), reported {rep}"))
    else:
        out += c15.monitor(cfg, ["Xfer"], o)
    if k not in ("StakeOB", "ClaimOB"):
        return out
    # ---------------------------------------------------------------- part A
    ep = endpoint(k)
    a, u, pays, foreign, authorised = ob_facts(op, o)
    m = o["meas"]
    if not o["ok"]:
        for key in ("lpf", "sf", "hold", "attrs") + CALLEE_KEYS:
            x, y = o[key], pre[key]
            if key in ("lpf", "sf", "hold"):
                x, y = {i: v for i, v in x.items() if v}, {i: v for i, v in y.items() if v}
            if x != y:
                out.append((f"ob-failed-state-changed:{ep}", f"failed {op} ({o['msg']}) changed {key}"))
        return out
    if not authorised:
        why = "blacklisted" if pre["black"].get(a) else "not listed by the user"
        out.append((f"ob-unauthorised-accepted:{ep}", f"{op}: succeeded although caller {a} is {why} in the hub's storage (user {u})"))
    for i in foreign:
        out.append((f"ob-foreign-owner-accepted:{ep}@{i}", f"{op}: succeeded although payment {i} records owner(s) {m['owners'][i]}, not user {u}"))
    if k == "StakeOB":
        nn, amt, rs, rl = o["outs"]
    else:
        rl, rs, nn, amt = o["outs"]
    dacct, dride = m["dacct"], m["dride"]
    lock_key, stk_key = f"{TK_REW}:0", f"{TK_STK}:0"
    if u is not None and u != a:
        if dacct[u].get(lock_key, 0) != rl or dride[u] != rs:
            out.append((f"ob-reward-not-to-user:{ep}", f"{op}: reported rewards LP {rl} / staking {rs}; user {u}'s LOCKED balance moved by "
                        f"{dacct[u].get(lock_key, 0)}, staking-token balance by {dride[u]}"))
        if dacct[a].get(lock_key, 0) != 0 or dride[a] != 0:
            out.append((f"ob-reward-to-agent:{ep}", f"{op}: caller {a}'s LOCKED balance moved by {dacct[a].get(lock_key, 0)}, staking-token balance by {dride[a]}"))
        if any(key not in (lock_key, stk_key) for key in dacct[u]):
            out.append((f"ob-reward-not-to-user:{ep}", f"{op}: user {u}'s other balances moved: {dacct[u]}"))
        for y in dacct:
            if y not in (u, a) and (dacct[y] or dride[y]):
                out.append((f"ob-third-party-balance:{ep}", f"{op}: balances of account {y} moved by {dacct[y]} / {dride[y]}"))
    exp = {f"{TK_DY}:{nn}": amt}
    for (t, n, x) in pays:
        key = f"{t}:{n}"
        exp[key] = exp.get(key, 0) - x
    if u == a:
        exp[lock_key], exp[stk_key] = rl, rs
    got = dict(dacct[a])
    if dacct[a].get(f"{TK_DY}:{nn}", 0) != amt:
        out.append((f"ob-dual-yield-not-to-agent:{ep}", f"{op}: new dual-yield token {nn} amount {amt}; the caller's balance of it moved by {dacct[a].get(f'{TK_DY}:{nn}', 0)}"))
    elif {x: v for x, v in got.items() if v} != {x: v for x, v in exp.items() if v}:
        out.append((f"ob-agent-payment:{ep}", f"{op}: caller {a}'s balances moved by {dacct[a]}, expected {exp}"))
    na = o["attrs"].get(nn)
    if na is None or nn in pre["attrs"]:
        out.append(("new-dual-yield-nonce", f"{op}: returned nonce {nn} is not a new dual-yield token"))
    elif o["lpo"].get(na[0]) != u or o["sfo"].get(na[2]) != u:
        out.append((f"ob-new-position-owner:{ep}", f"{op}: new token records LP-farm nonce {na[0]} (owner {o['lpo'].get(na[0])}) and staking nonce "
                    f"{na[2]} (owner {o['sfo'].get(na[2])}); the user is {u}"))
    return out


def safe_monitor(cfg, op, o):
    try:
        return monitor(cfg, op, o)
    except Exception as e:  # an unevaluable observation is a failure, not a crash of the check
        import traceback
        return [(f"monitor-cannot-evaluate:{op[0]}", f"{op}: {type(e).__name__}: {e} | " + traceback.format_exc().splitlines()[-3].strip())]


def nontrivial(cfg, op, o):
    k = op[0]
    if k in ("StakeOB", "ClaimOB"):
        a, u, pays, foreign, authorised = ob_facts(op, o)
        rl = rs = 0
        if o["ok"]:
            rl, rs = (o["outs"][3], o["outs"][2]) if k == "StakeOB" else (o["outs"][0], o["outs"][1])
        return (k, o["ok"], authorised, len(pays), tuple(foreign), rl > 0, rs > 0, o["bl"] > 0, o["bs"] > 0, bool(o["pre"]["black"].get(a)))
    if k == "Hub":
        return ("Hub", op[1], o["ok"], op[2] in USERS, op[3] in AGENTS)
    if k in ("Stake", "Claim", "Unstake"):
        nk = c15.nontrivial(cfg, op, o)
        return None if nk is None else nk + (o["bl"] > 0, o["bs"] > 0)
    return None


def strip(o):
    return {k: v for k, v in o.items() if k not in ("pre", "attrs", "users", "listed", "black", "wl", "lheld", "ubheld", "hold")}


def _gen(args):
    seed, nops, focus = args
    return (seed,) + tuple(mc.gen_history(seed, nops, focus))


def explore_meta_closed(pid, tier, seed, model_ok=True, focus=False, scale=None):
    """scale: (histories, operations per history) overriding the tier's budget"""
    ex = Exploration()
    ex.rule = RULE
    nh, nops = scale or budgets(tier)
    seeds = [seed * 100000 + 70000 + i for i in range(nh)]
    hist = []
    with concurrent.futures.ProcessPoolExecutor(max_workers=16) as pool:
        for sd, cfg, trace, gops in pool.map(_gen, [(s, nops, focus) for s in seeds], chunksize=2):
            hist.append((sd, cfg, trace, gops))
    closed_terms, behalf_terms = [], []
    for sd, cfg, trace, gops in hist:
        ex.histories += 1
        ever = set(tuple(p) for p in cfg["hub"]["wl"])
        ex.count("skipped:quantity-0 (A-NFT0)", cfg.get("skipped", 0))
        ex.count("skipped:stake of value 0 with merged tokens (A-V0)", cfg.get("skipped_v0", 0))
        for idx, (op, o) in enumerate(trace):
            k = op[0]
            if idx < cfg["nsetup"]:
                ex.count(f"setup:{k}")
            else:
                ex.evaluations += 1
                ex.count(f"{k}:" + ("ok" if o["ok"] else "err"))
                ex.count("ops:ok" if o["ok"] else "ops:err")
                if o["kind"] == "proxy" or k == "Hub":
                    ex.count("proxy+hub:ok" if o["ok"] else "proxy+hub:err")
                if not o["ok"]:
                    ex.count("err:" + k + ":" + o["msg"][:48])
                if o["ok"] and o["bl"] > 0:
                    ex.count(f"{k}:LP-farm boosted>0")
                if o["ok"] and o["bs"] > 0:
                    ex.count(f"{k}:staking boosted>0")
                if k in ("StakeOB", "ClaimOB"):
                    a, u, pays, foreign, authorised = ob_facts(op, o)
                    tag = ("ok" if o["ok"] else "err") + (":authorised" if authorised else ":unauthorised") + \
                          (":foreign@" + ",".join(map(str, foreign)) if foreign else "")
                    ex.count(f"{k}:{tag}")
                    if not authorised and u is not None:
                        why = "blacklisted" if o["pre"]["black"].get(a) else ("revoked" if (u, a) in ever else "never-listed")
                        ex.count(f"{k}:caller-{why}:" + ("ok" if o["ok"] else "err"))
                    if o["ok"] and len(pays) > 1:
                        ex.count(f"{k}:with-additional-dual-yield-tokens")
                    if o["ok"] and (o["outs"][2 if k == 'StakeOB' else 0] or o["outs"][3 if k == 'StakeOB' else 1]):
                        ex.count(f"{k}:rewards>0")
                if k == "Hub" and o["ok"] and op[1] == "whitelist":
                    ever.add((op[2], op[3]))
                if o["ok"] and o.get("meas") and o["meas"].get("safe") and o["meas"]["safe"] != o["meas"].get("spot"):
                    ex.count("safe-price != spot-price")
            nk = nontrivial(cfg, op, o)
            if nk is not None:
                ex.nontrivial.add(nk)
            for key, what in safe_monitor(cfg, op, o):
                ex.failures.append(dict(key=key, what=what, replay=dict(system="meta_closed", cfg=cfg, ops=gops[:o["gi"]], seed=sd,
                                                                          observed=strip(o))))
        closed_terms.append(mc.coq_history(cfg, trace))
        behalf_terms.append(mc.coq_behalf_history(cfg, trace))
        if len(ex.samples) < 2:
            ex.samples.append(dict(system="meta_closed", seed=sd, cfg=cfg,
                                   ops=[[op, "ok" if o["ok"] else o["msg"], o["outs"]] for op, o in trace[cfg["nsetup"]:cfg["nsetup"] + 14]]))
    ex.notes.append("closed model inputs measured on the real run: the pair's safe-price view, boosted payouts (pool views), block / epoch; "
                    "every other callee answer is computed by the callee models")
    if model_ok:
        for which, imports, terms, fn in (("closed", mc.IMPORTS_CLOSED, closed_terms, "check_closed"),
                                          ("behalf", mc.IMPORTS_BEHALF, behalf_terms, "check_behalf")):
            try:
                res = coqrun.eval_terms(imports, terms, tag=f"{pid}mc{which[0]}", per_file=max(1, min(8, len(terms) // 16 + 1)))
            except Exception as e:
                ex.disagreements.append(dict(where=f"Run.MetaClosedRun.{fn}", detail=f"evaluation failed: {str(e)[-1500:]}"))
                continue
            ex.traces_validated += len(res)
            ex.count(f"traces replayed on the {which} model", len(res))
            for (sd, cfg, trace, gops), r in zip(hist, res):
                if r:
                    tr = trace if which == "closed" else [(op, o) for op, o in trace if op[0] in mc.MB_OPS]
                    i = r[0]
                    if len(r) != 4 or i < 0 or i >= len(tr):
                        ex.disagreements.append(dict(where=f"Run.MetaClosedRun.{fn}", system="meta_closed", seed=sd, cfg=cfg, detail=f"mismatch vector without a valid index (set-up failed in the model, or an attribute mismatch reported by Run.MetaStakingRun.cmp_state): {r}"))
                        continue
                    ex.disagreements.append(dict(where=f"Run.MetaClosedRun.{fn}", system="meta_closed", seed=sd, cfg=cfg, index=i, field=r[1],
                                                 model=r[2], impl=r[3], op=tr[i][0], observed=strip(tr[i][1]), ops=gops[:tr[i][1]["gi"]]))
    return ex


def replay_meta_closed(data):
    rp = data["replay"]
    trace = mc.replay_history(rp["cfg"], rp["ops"])
    fails = []
    for op, o in trace:
        for key, what in safe_monitor(rp["cfg"], op, o):
            fails.append(dict(key=key, what=what))
    return fails


def merge(ex, ex2):
    ex.evaluations += ex2.evaluations
    ex.histories += ex2.histories
    ex.nontrivial |= ex2.nontrivial
    ex.failures += ex2.failures
    ex.disagreements += ex2.disagreements
    ex.traces_validated += ex2.traces_validated
    ex.samples += ex2.samples[:1]
    ex.notes += ex2.notes
    for k, v in ex2.counters.items():
        ex.counters[k] = ex.counters.get(k, 0) + v
    return ex
