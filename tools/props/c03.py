"""C03 — swaps follow the documented formula, honour slippage bounds, conserve tokens."""
from props.pair_common import explore_pair, replay_pair

ASSUMPTIONS = ["A-VM"]
M = 100000
RULE = ("same generator as C01 (both swap modes, both directions, fee on/off, min/max arguments either side of the "
        "computed amount, outputs up to reserve-1, inputs down to 1); non-trivial = successful swap whose quotient is "
        "inexact (floor / +1 matter); distinct by (mode, direction, fee on, special>0, refund>0, magnitude classes)")


def sides(pre, o, tin):
    if tin == 1:
        return pre["r1"], pre["r2"], o["r1"], o["r2"], pre["b1"], pre["b2"], o["b1"], o["b2"]
    return pre["r2"], pre["r1"], o["r2"], o["r1"], pre["b2"], pre["b1"], o["b2"], o["b1"]


def monitor(cfg, op, o):
    out = []
    if not o["ok"] or op[0] not in ("SwapIn", "SwapOut"):
        return out
    pre = o["pre"]
    F, SF = pre["fee"], pre["sfee"]
    if op[0] == "SwapIn":
        _, c, tin, ain, tout, mn = op
        ri, ro, ri2, ro2, bi, bo, bi2, bo2 = sides(pre, o, tin)
        exp = ain * (M - F) * ro // (ri * M + ain * (M - F))
        got = o["outs"][0] if o["outs"] else None
        if got != exp:
            out.append(("swap-in-formula", f"{op}: paid out {got}, documented formula gives {exp} (reserves {ri},{ro} fee {F})"))
        if got is not None and got < mn:
            out.append(("swap-in-below-minimum", f"{op}: paid {got} < caller minimum {mn}"))
        paid, delivered = ain, got
    else:
        _, c, tin, amax, tout, aout = op
        ri, ro, ri2, ro2, bi, bo, bi2, bo2 = sides(pre, o, tin)
        exp = ri * aout * M // ((ro - aout) * (M - F)) + 1
        if len(o["outs"]) != 2:
            out.append(("swap-out-results", f"{op}: unexpected results {o['outs']}"))
            return out
        delivered, refund = o["outs"]
        paid = amax - refund
        if delivered != aout:
            out.append(("swap-out-delivered", f"{op}: delivered {delivered}, requested {aout}"))
        if paid != exp:
            out.append(("swap-out-charge", f"{op}: charged {paid}, documented formula gives {exp}"))
        if paid > amax:
            out.append(("swap-out-above-maximum", f"{op}: charged {paid} > maximum {amax}"))
        if paid * (M - F) * ro // (ri * M + paid * (M - F)) < aout:
            out.append(("swap-out-not-enough", f"{op}: charge {paid} would not buy {aout} under the fixed-input rule"))
    # conservation
    d = o["dcaller"]
    if d[tin] != -paid or d[tout] != delivered:
        out.append(("caller-balance-delta", f"{op}: caller deltas {d}, expected -{paid} of token {tin} and +{delivered} of token {tout}"))
    spec_max = paid * SF // M if pre["fee_on"] else 0
    not_in_reserve = paid - (ri2 - ri)
    if not (0 <= not_in_reserve <= spec_max):
        out.append(("special-fee-bound", f"{op}: caller gave {paid}, reserve gained {ri2 - ri}; difference {not_in_reserve} not within [0, {spec_max}] (special {SF}, fee_on {pre['fee_on']})"))
    left = paid - (bi2 - bi)
    if not (0 <= left <= spec_max):
        out.append(("fee-outflow-bound", f"{op}: {left} of the input token left the pair, bound is the special fee {spec_max}"))
    if (bo2 - ro2) != (bo - ro):
        out.append(("output-side-leak", f"{op}: output-side excess changed from {bo - ro} to {bo2 - ro2}"))
    if o["dothers"]:
        out.append(("fee-credited-to-account", f"{op}: other accounts' balances changed: {o['dothers']}"))
    return out


def nontrivial(cfg, op, o):
    if not o["ok"] or op[0] not in ("SwapIn", "SwapOut"):
        return None
    pre = o["pre"]
    F = pre["fee"]
    tin = op[2]
    ri, ro = (pre["r1"], pre["r2"]) if tin == 1 else (pre["r2"], pre["r1"])
    if op[0] == "SwapIn":
        ain = op[3]
        num, den = ain * (M - F) * ro, ri * M + ain * (M - F)
        refund = 0
    else:
        aout = op[5]
        num, den = ri * aout * M, (ro - aout) * (M - F)
        refund = o["outs"][1] if len(o["outs"]) == 2 else 0
    if num % den == 0:
        return None
    spec = pre["fee_on"] and pre["sfee"] > 0
    return (op[0], tin, pre["fee_on"], spec, refund > 0, F == 0, len(str(ri)) // 4, len(str(ro)) // 4, min(9, len(str(num // den))))


def explore(tier, seed, model_ok=True, focus=False):
    return explore_pair("C03", tier, seed, monitor, nontrivial, RULE, model_ok, focus)


def replay(data):
    return replay_pair(data, monitor)
