"""C07 — position tokens: supply = sum; split/merge create no value; owner totals exact (dex/farm)."""
from props.farm_common import explore_farm, replay_farm, into_part, merge

ASSUMPTIONS = ["A-VM", "farm_position_migration_nonce at its default (no pre-migration positions); the owner's upgrade() is exercised as an environment step and must change nothing"]
RULE = ("same generator as C05 (partial-amount payments, merges of up to 5 positions with different entry indexes, transfers "
        "followed by claim/exit/merge/enter-with-merge by the receiver); non-trivial = merge where ceil != floor, or a split "
        "with inexact compounded share, or an operation using a position owned by another account; distinct by (op, flags, #positions)")


def expected_new_attrs(op, o):
    """attributes the documented split/merge rules give for the position minted by this operation"""
    pre_at = o["pre"]["attrs"]
    k = op[0]
    c = op[1]
    if k == "Enter":
        base = (o["rps"], o["ep"], 0, op[2], c)
        rest = op[3]
    elif k == "Claim":
        a = pre_at.get(op[2][0])
        if not a:
            return None
        p = into_part(a, op[2][1])
        base = (o["rps"], p[1], p[2], p[3], c)
        rest = op[3]
    elif k == "Merge":
        a = pre_at.get(op[2][0][0])
        if not a:
            return None
        base = into_part(a, op[2][0][1])
        rest = op[2][1:]
    else:
        return None
    ceil_ne_floor = False
    for (n, x) in rest:
        a = pre_at.get(n)
        if not a:
            return None
        p = into_part(a, x)
        if (base[0] * base[3] + p[0] * p[3]) % (base[3] + p[3]) != 0:
            ceil_ne_floor = True
        base = merge(base, p)
    return base[:4] + (c,), ceil_ne_floor


def monitor(cfg, op, o):
    out = []
    total = sum(o["held"].values()) + o["farm_held"]
    if total != o["supply"]:
        out.append(("supply-vs-positions", f"after {op}: farm token supply {o['supply']} != sum of outstanding positions {total}"))
    # owner totals
    for u, t in o["utot"].items():
        s = 0
        for key, v in o["held"].items():
            a = o["attrs"].get(key // 1000)
            if v and a and a[4] == u:
                s += v
        if s != t:
            out.append(("owner-total", f"after {op}: user {u} total farm position {t} != sum of positions recorded as theirs {s}"))
    if o["ok"] and op[0] in ("Enter", "Claim", "Merge"):
        e = expected_new_attrs(op, o)
        got = o["new_attrs"].get(o["outs"][0])
        if e and got:
            exp, _ = e
            if tuple(got) != tuple(exp):
                out.append((f"merged-attributes:{op[0]}", f"{op}: new position attributes {got}, split/merge rules give {exp}"))
    return out


def nontrivial(cfg, op, o):
    if not o["ok"] or op[0] not in ("Enter", "Claim", "Merge", "Exit", "Compound"):
        return None
    pre_at = o["pre"]["attrs"]
    pays = []
    if op[0] == "Enter":
        pays = op[3]
    elif op[0] in ("Claim", "Compound"):
        pays = [op[2]] + op[3]
    elif op[0] == "Merge":
        pays = op[2]
    elif op[0] == "Exit":
        pays = [op[2]]
    foreign = any(pre_at.get(n) and pre_at[n][4] != op[1] for n, _ in pays)
    partial = any(pre_at.get(n) and pre_at[n][3] != x for n, x in pays)
    cnf = False
    e = expected_new_attrs(op, o) if op[0] in ("Enter", "Claim", "Merge") else None
    if e:
        cnf = e[1]
    if not (foreign or cnf or (partial and len(pays) > 1)):
        return None
    return (op[0], foreign, partial, cnf, len(pays), cfg["dsc"])


def explore(tier, seed, model_ok=True, focus=False):
    """dex/farm histories, then farm-with-locked-rewards histories"""
    from props.farm_locked_common import explore_locked, merge_into, monitors_c07, nontrivial_c07
    ex = explore_farm("C07", tier, seed, monitor, nontrivial, RULE, model_ok, focus)
    ex2 = explore_locked("C07", tier, seed, monitors_c07, nontrivial_c07, RULE, model_ok, focus, scale=0.5)
    ex = merge_into(ex, ex2)
    from props import staking_pos_common as spc
    ex3 = spc.explore_staking_pos("C07", tier, seed, spc.monitors_c07, spc.nontrivial_c07, spc.RULE, model_ok, focus, scale=0.5)
    ex = spc.merge_exploration(ex, ex3)
    # on-behalf endpoints of the three hosts with a real permissions hub (Model/FarmBehalf.v, Model/StakingBehalf.v)
    from props import behalf_common as bc
    return bc.merge(ex, bc.explore_behalf("C07", tier, seed, model_ok, focus, keys=bc.keys_c07))


def replay(data):
    if data.get("replay", {}).get("system") == "behalf":
        from props import behalf_common as bc
        return bc.replay_behalf(data, bc.keys_c07)
    if data.get("replay", {}).get("system") == "stakingpos":
        from props import staking_pos_common as spc
        return spc.replay_staking_pos(data, spc.monitors_c07)
    if data.get("replay", {}).get("system") == "farm-locked":
        from props.farm_locked_common import replay_locked, monitors_c07
        return replay_locked(data, monitors_c07)
    return replay_farm(data, monitor)
