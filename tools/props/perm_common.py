"""Permissions module + pausable module over HISTORIES (C19: "succeed only for callers holding the required role ...
previously authorised then revoked"): exploration driver and monitors evaluated on REAL observations
(tools/sys_perm.py; Coq side Model/PermExt.v, Run/PermRun.v, Props/C19_perm.v).

Monitors.  `pre` / `post` are the `getPermissions` answers of the 9 tracked addresses before / after the call, F the role flag
the call names, <c> the contract kind.  Keys are stable identifiers of the failing clause:

 (a) exact effect of every operation on every address
  perm-bit-gained-by-remove:<c>        after a successful removeAdmin / removeFromPauseWhitelist some address holds a bit it did not hold
  perm-remove-ineffective:<c>          ... a named address still holds F
  perm-remove-effect:<c>               ... a named address lost a bit other than F
  perm-bit-lost-by-add:<c>             after a successful addAdmin / addToPauseWhitelist a named address lost a bit it held
  perm-add-effect:<c>                  ... a named address does not hold exactly  pre | F
  perm-bystander-changed:<c>           an address the call does not name changed (add / remove / updateOwnerOrAdmin)
  perm-owner-transfer-effect:<c>       updateOwnerOrAdmin(prev) by c: not (post[c] = pre[prev], post[prev] = 0 unless prev = c)
  perm-failed-op-changed-state:<c>     a failed call changed a permission or the stored State
 (b) idempotence
  perm-remove-not-idempotent:<c>       the same successful remove call issued twice in a row: the second changed something
  perm-add-not-idempotent:<c>          same for add
  perm-remove-of-unheld-changed:<c>    a successful remove naming only addresses that do not hold F changed something
 (c) holders = granted and not since revoked (set-based specification kept by the monitor from the state right after deployment:
     successful add -> insert, successful remove -> delete, successful updateOwnerOrAdmin -> the caller takes prev's place)
  perm-holders-not-granted-set:<FLAG>:<c>   the addresses holding FLAG per getPermissions differ from the specification's set
  revoked-role-still-effective:<c>          a call that demands a role succeeded for a caller the specification says was revoked
  never-granted-role-effective:<c>          ... for a caller that was never granted it
  granted-role-not-effective:<c>            ... was refused for a caller the specification says holds it
 (d) pause / resume
  pause-by-unprivileged:<c>            pause / resume succeeded for a caller that does not hold PAUSE per getPermissions
  pause-refused-for-keeper:<c>         ... was refused for a caller that holds PAUSE
  pause-state-not-last-set:<c>         getState is not what the last successful pause / resume / setStateActiveNoSwaps set
  perm-op-by-unprivileged:<endpoint>:<c>   an OWNER-demanding endpoint succeeded for a caller without OWNER per getPermissions
  perm-op-refused-for-owner:<endpoint>:<c> ... was refused for a caller holding OWNER
  only-owner-bypassed:<c>              updateOwnerOrAdmin succeeded for a caller that is not the chain owner / refused for the chain owner
"""
import concurrent.futures
import sys_perm as sp
import coqrun
from framework import Exploration

OWNER, ADMIN, PAUSE = sp.OWNER, sp.ADMIN, sp.PAUSE
IDS = sp.IDS
KINDS = sp.KINDS
RULE = ("per contract kind (pair, farm, farm-with-locked-rewards, farm-staking: permissions + pausable modules; lkmex-transfer: "
        "permissions module only): a fresh deployment whose init arguments (owner argument zero / deployer / other, 0-3 admins with "
        "repetitions and overlaps) come from the seed, then a mostly-valid sequence of addAdmin / removeAdmin / addToPauseWhitelist / "
        "removeFromPauseWhitelist (0-5 addresses, duplicates) / pause / resume / setStateActiveNoSwaps / updateOwnerOrAdmin / "
        "ChangeOwnerAddress by 9 tracked addresses: ~70 % by a current holder of the demanded role, the rest by revoked holders and "
        "addresses that never held it; targets include the caller itself, current holders, never-holders; 12 % immediate repetitions; "
        "non-trivial = (kind, operation, ok, caller was holder / revoked / never, #addresses, duplicates, some target held / did not hold the flag)")


def fl(p):
    return "|".join(n for f, n in sp.FLAG_NAMES.items() if p & f) or "NONE"


def show(perms):
    return "{" + ", ".join(f"{a}:{fl(p)}" for a, p in sorted(perms.items()) if p) + "}"


def _perms(d):
    return {int(a): p for a, p in d.items()}


class Mon:
    """per-history monitor state: the set-based specification and the previous call"""

    def __init__(self, cfg, init):
        self.c = cfg["kind"]
        p = _perms(init["perms"])
        self.sets = {f: {a for a in IDS if p[a] & f} for f in (OWNER, ADMIN, PAUSE)}
        self.ever = {f: set(self.sets[f]) for f in (OWNER, ADMIN, PAUSE)}
        self.chain = 1
        self.prev = None
        self.reported = {}

    def caller_class(self, a, f):
        return "holder" if a in self.sets[f] else "revoked" if a in self.ever[f] else "never"

    def step(self, op, o):
        out = []
        c = self.c
        k = op[0]
        caller = op[1]
        pre_o = o["pre"]
        pre, post = _perms(pre_o["perms"]), _perms(o["perms"])
        ok = o["ok"]
        ep = sp.ENDPOINT[k]
        tg = sp.targets_of(op)
        changed = {a for a in IDS if post[a] != pre[a]}
        # ---- authorisation, on the view and on the history
        need = OWNER if k in sp.OPS_OWNER else PAUSE if k in sp.OPS_PAUSE else None
        if need is not None:
            holds = bool(pre[caller] & need)
            if k in sp.OPS_PAUSE:
                if ok and not holds:
                    out.append((f"pause-by-unprivileged:{c}", f"{op}: {ep} succeeded for address {caller} holding {fl(pre[caller])}"))
                if not ok and holds:
                    out.append((f"pause-refused-for-keeper:{c}", f"{op}: {ep} failed ({o['msg']}) for address {caller} holding {fl(pre[caller])}"))
            else:
                if ok and not holds:
                    out.append((f"perm-op-by-unprivileged:{ep}:{c}", f"{op}: succeeded for address {caller} holding {fl(pre[caller])}"))
                if not ok and holds:
                    out.append((f"perm-op-refused-for-owner:{ep}:{c}", f"{op}: failed ({o['msg']}) for address {caller} holding {fl(pre[caller])}"))
            cls = self.caller_class(caller, need)
            if ok and cls == "revoked":
                out.append((f"revoked-role-still-effective:{c}", f"{op}: {ep} succeeded for address {caller}, whose {fl(need)} role was revoked earlier in "
                            f"this history and not granted again (getPermissions before the call: {fl(pre[caller])})"))
            if ok and cls == "never":
                out.append((f"never-granted-role-effective:{c}", f"{op}: {ep} succeeded for address {caller}, which was never granted {fl(need)} "
                            f"(getPermissions before the call: {fl(pre[caller])})"))
            if not ok and cls == "holder":
                out.append((f"granted-role-not-effective:{c}", f"{op}: {ep} failed ({o['msg']}) for address {caller}, which was granted {fl(need)} and not revoked since"))
        elif k == "UpdateOwner":
            if ok != (caller == self.chain):
                out.append((f"only-owner-bypassed:{c}", f"{op}: updateOwnerOrAdmin {'succeeded' if ok else 'failed (' + o['msg'] + ')'} for address {caller}; the chain owner is {self.chain}"))
        # ---- effect
        if not ok:
            if changed or o["state"] != pre_o["state"]:
                out.append((f"perm-failed-op-changed-state:{c}", f"failed {op} ({o['msg']}): permissions {show(pre)} -> {show(post)}, state {pre_o['state']} -> {o['state']}"))
        elif k in ("AddAdmin", "AddPausers"):
            f = sp.flag_of(k)
            for x in sorted(set(tg)):
                if pre[x] & ~post[x]:
                    out.append((f"perm-bit-lost-by-add:{c}", f"{op}: address {x} {fl(pre[x])} -> {fl(post[x])}"))
                elif post[x] != pre[x] | f:
                    out.append((f"perm-add-effect:{c}", f"{op}: address {x} {fl(pre[x])} -> {fl(post[x])}, expected {fl(pre[x] | f)}"))
            for y in sorted(changed - set(tg)):
                out.append((f"perm-bystander-changed:{c}", f"{op}: address {y}, not named by the call, {fl(pre[y])} -> {fl(post[y])}"))
        elif k in ("RemoveAdmin", "RemovePausers"):
            f = sp.flag_of(k)
            for y in IDS:
                if post[y] & ~pre[y]:
                    out.append((f"perm-bit-gained-by-remove:{c}", f"{op}: address {y} {fl(pre[y])} -> {fl(post[y])}: revoking {fl(f)} granted {fl(post[y] & ~pre[y])}"))
            for x in sorted(set(tg)):
                if post[x] & f:
                    out.append((f"perm-remove-ineffective:{c}", f"{op}: address {x} still holds {fl(f)} ({fl(pre[x])} -> {fl(post[x])})"))
                if (pre[x] & ~f) & ~post[x]:
                    out.append((f"perm-remove-effect:{c}", f"{op}: address {x} {fl(pre[x])} -> {fl(post[x])}, expected {fl(pre[x] & ~f)}"))
            for y in sorted(changed - set(tg)):
                if not post[y] & ~pre[y]:
                    out.append((f"perm-bystander-changed:{c}", f"{op}: address {y}, not named by the call, {fl(pre[y])} -> {fl(post[y])}"))
            if changed and not any(pre[x] & f for x in tg):
                out.append((f"perm-remove-of-unheld-changed:{c}", f"{op}: no named address held {fl(f)}, yet {show(pre)} -> {show(post)}"))
        elif k == "UpdateOwner":
            prev = op[2]
            exp = dict(pre)
            exp[prev] = 0
            exp[caller] = pre[prev]
            if post != exp:
                bad = sorted(a for a in IDS if post[a] != exp[a])
                key = f"perm-owner-transfer-effect:{c}" if set(bad) <= {caller, prev} else f"perm-bystander-changed:{c}"
                out.append((key, f"{op}: {show(pre)} -> {show(post)}, expected {show(exp)}"))
        elif changed:
            out.append((f"perm-bystander-changed:{c}", f"{op}: {ep} changed permissions {show(pre)} -> {show(post)}"))
        # ---- idempotence: the same successful call twice in a row
        if ok and self.prev is not None and self.prev == (op, True) and k in ("AddAdmin", "AddPausers", "RemoveAdmin", "RemovePausers") and changed:
            kind = "remove" if k.startswith("Remove") else "add"
            out.append((f"perm-{kind}-not-idempotent:{c}", f"{op} issued twice in a row, both successful: the second call changed {show(pre)} -> {show(post)}"))
        self.prev = (op, ok)
        # ---- the set-based specification over the history
        if ok:
            if k in ("AddAdmin", "AddPausers"):
                self.sets[sp.flag_of(k)] |= set(tg)
            elif k in ("RemoveAdmin", "RemovePausers"):
                self.sets[sp.flag_of(k)] -= set(tg)
            elif k == "UpdateOwner":
                prev = op[2]
                for f in (OWNER, ADMIN, PAUSE):
                    was = prev in self.sets[f]
                    self.sets[f] -= {prev, caller}
                    if was:
                        self.sets[f].add(caller)
            elif k == "ChangeOwner":
                self.chain = op[2]
            for f in (OWNER, ADMIN, PAUSE):
                self.ever[f] |= self.sets[f]
        for f in (OWNER, ADMIN, PAUSE):
            have = {a for a in IDS if post[a] & f}
            diff = (tuple(sorted(have - self.sets[f])), tuple(sorted(self.sets[f] - have)))
            if diff != ((), ()) and self.reported.get(f) != diff:
                out.append((f"perm-holders-not-granted-set:{fl(f)}:{c}", f"after {op}: addresses holding {fl(f)} per getPermissions {sorted(have)}; granted and not since "
                            f"revoked in this history {sorted(self.sets[f])} (extra {list(diff[0])}, missing {list(diff[1])})"))
            self.reported[f] = diff
        # ---- the pause state
        if o["state"] >= 0:
            exp = sp.STATE_TARGET[k] if (ok and k in sp.STATE_TARGET) else pre_o["state"]
            if o["state"] != exp:
                out.append((f"pause-state-not-last-set:{c}", f"{op} ({'ok' if ok else o['msg']}): getState {pre_o['state']} -> {o['state']}, expected {exp}"))
        return out

    def nontrivial(self, op, o, cls):
        k = op[0]
        tg = sp.targets_of(op)
        pre = _perms(o["pre"]["perms"])
        f = sp.flag_of(k) if tg or k in ("AddPausers", "RemovePausers") else 0
        return (self.c, k, o["ok"], cls, min(len(tg), 3), len(set(tg)) < len(tg), any(pre[x] & f for x in tg), any(not pre[x] & f for x in tg),
                caller_in_targets(op))


def caller_in_targets(op):
    return op[1] in sp.targets_of(op) or (op[0] in ("UpdateOwner", "ChangeOwner") and op[1] == op[2])


def run_monitors(cfg, init, trace, ex=None):
    """-> [(index, key, what)]"""
    m = Mon(cfg, init)
    fails = []
    c = cfg["kind"]
    for idx, (op, o) in enumerate(trace):
        k = op[0]
        need = OWNER if k in sp.OPS_OWNER else PAUSE if k in sp.OPS_PAUSE else None
        cls = m.caller_class(op[1], need) if need is not None else ("chain-owner" if op[1] == m.chain else "not-chain-owner")
        if ex is not None:
            ex.count(f"{c}:{k}:" + ("ok" if o["ok"] else "err"))
            ex.count(f"{c}:ops:" + ("ok" if o["ok"] else "err"))
            ex.count(f"{c}:caller-{cls}:" + ("ok" if o["ok"] else "err"))
            tg = sp.targets_of(op)
            if len(set(tg)) < len(tg):
                ex.count(f"{c}:{k}:duplicate-addresses")
            if k.startswith("Remove") and o["ok"] and tg and not any(_perms(o["pre"]["perms"])[x] & sp.flag_of(k) for x in tg):
                ex.count(f"{c}:{k}:role-not-held")
            if o["ok"] and caller_in_targets(op):
                ex.count(f"{c}:{k}:caller-acts-on-itself")
            if m.prev == (op, True) and o["ok"]:
                ex.count(f"{c}:{k}:repeated-call")
            ex.nontrivial.add(m.nontrivial(op, o, cls))
        try:
            fs = m.step(op, o)
        except Exception as e:      # an unevaluable observation is a failure, not a crash of the check
            fs = [("perm-monitor-crash", f"{op}: {type(e).__name__}: {e}")]
        for key, what in fs:
            fails.append((idx, key, what))
    return fails


# ------------------------------------------------------------------ exploration
def _gen(args):
    kind, seed, nops = args
    return (kind, seed) + tuple(sp.gen_history(kind, seed, nops))


def strip(o):
    return {k: v for k, v in o.items() if k != "pre"}


def budgets(tier):
    return (24, 40) if tier == "quick" else (320, 60)


def explore_perm(pid, tier, seed, model_ok=True, focus=False, scale=1.0, kinds=KINDS, nh=None, nops=None):
    ex = Exploration()
    ex.rule = RULE
    bh, bo = budgets(tier)
    nh = max(4, int(bh * scale)) if nh is None else nh
    nops = bo if nops is None else nops
    jobs = [(k, seed * 100000 + 70000 + 5000 * KINDS.index(k) + i, nops) for k in kinds for i in range(nh)]
    with concurrent.futures.ProcessPoolExecutor(max_workers=16) as pool:
        hist = list(pool.map(_gen, jobs, chunksize=max(1, len(jobs) // 64)))
    terms = []
    for kind, sd, cfg, init, trace in hist:
        ex.histories += 1
        ex.evaluations += len(trace)
        ops_all = [t[0] for t in trace]
        for idx, key, what in run_monitors(cfg, init, trace, ex):
            ex.failures.append(dict(key=key, what=what, replay=dict(system="perm", kind=kind, cfg=cfg, ops=ops_all[:idx + 1], seed=sd,
                                                                    observed=strip(trace[idx][1]))))
        terms.append(sp.coq_history(cfg, init, trace))
        if len(ex.samples) < 2 and kind == kinds[(2 * len(ex.samples)) % len(kinds)]:
            ex.samples.append(dict(system="perm", kind=kind, seed=sd, cfg=cfg,
                                   ops=[[op, "ok" if o["ok"] else o["msg"], show(_perms(o["perms"])), o["state"]] for op, o in trace[:12]]))
    if model_ok and terms:
        try:
            res = coqrun.eval_terms(sp.IMPORTS, terms, tag=f"{pid}perm", per_file=max(1, len(terms) // 16 + 1))
        except Exception as e:
            ex.disagreements.append(dict(where="Run.PermRun.check_history", system="perm", detail=f"evaluation failed: {str(e)[-1500:]}"))
            res = []
        ex.traces_validated += len(res)
        for (kind, sd, cfg, init, trace), r in zip(hist, res):
            if not r:
                continue
            i = r[0]
            op, o = (("deploy",), init) if i < 0 else trace[i]
            ex.disagreements.append(dict(where="Run.PermRun.check_history", system="perm", kind=kind, seed=sd, cfg=cfg, index=i, field=r[1],
                                         field_name=sp.field_name(r[1]), model=r[2], impl=r[3], op=op, observed=strip(o),
                                         ops=[t[0] for t in trace[:max(i, 0) + 1]]))
    return ex


def replay_perm(data):
    rp = data["replay"]
    init, trace = sp.replay_history(rp["cfg"], rp["ops"])
    return [dict(key=key, what=what) for _, key, what in run_monitors(rp["cfg"], init, trace)]


def merge(ex, ex2):
    ex.evaluations += ex2.evaluations
    ex.histories += ex2.histories
    ex.nontrivial |= ex2.nontrivial
    ex.failures += ex2.failures
    ex.disagreements += ex2.disagreements
    ex.traces_validated += ex2.traces_validated
    ex.samples += ex2.samples[:1]
    for k, v in ex2.counters.items():
        ex.counters["perm:" + k] = ex.counters.get("perm:" + k, 0) + v
    return ex
