"""Shared exploration driver for farm-staking (C12; also the staking part of C06)."""
import concurrent.futures
import sys_staking as ss
import coqrun
from framework import Exploration

IMPORTS = "Base.Prelude Gen.Params Model.Staking Run.StakingRun"
MAXP = 10000
BY = 31_536_000 // 6


def _gen(args):
    seed, nops = args
    return (seed,) + tuple(ss.gen_history(seed, nops))


def budgets(tier):
    return (48, 45) if tier == "quick" else (1200, 60)


def strip(o):
    return {k: v for k, v in o.items() if k not in ("pre", "pos", "ub", "held", "ubheld")}


def index_monitor(cfg, op, o):
    """reward-per-share of the staking farm: growth formula with the APR cap and capacity, last block"""
    out = []
    pre, cp = o["pre"], o["pre_cfg"]
    if o["rps"] < pre["rps"]:
        out.append(("staking-index-decreased", f"{op}: index {pre['rps']} -> {o['rps']}"))
    if not o["ok"]:
        return out
    dsc = cfg["dsc"]
    if o["settles"]:
        tot = o["exp_total"]
        cut = 0 if (cp["pct"] == 0 or not cp["factors"]) else tot * cp["pct"] // MAXP
        inc = 0 if (pre["supply"] == 0 or tot == 0) else (tot - cut) * dsc // pre["supply"]
        if o["rps"] != pre["rps"] + inc:
            out.append((f"staking-index-growth:{op[0]}", f"{op} at block {o['blk']}: index {pre['rps']} -> {o['rps']}, expected +{inc} (accrual {tot}, supply {pre['supply']})"))
        if o["acc"] - pre["acc"] != tot:
            out.append((f"staking-accrual:{op[0]}", f"{op}: accumulated rewards grew by {o['acc'] - pre['acc']}, expected {tot}"))
        if o["blk"] > pre["last"] and o["last"] != o["blk"]:
            out.append(("staking-last-reward-block", f"{op}: last reward block {o['last']} after settling at block {o['blk']}"))
    elif o["rps"] != pre["rps"]:
        out.append((f"staking-index-changed-without-settlement:{op[0]}", f"{op}: index {pre['rps']} -> {o['rps']}"))
    if op[0] in ("Claim", "Unstake"):
        n0, x0 = op[2]
        a = pre["pos"].get(n0)
        if a:
            base = x0 * (o["rps"] - a[0]) // dsc if o["rps"] > a[0] else 0
            paid = o["outs"][-1]
            if paid - o["b"] != base:
                out.append((f"staking-base-reward-formula:{op[0]}", f"{op}: paid {paid} (boosted {o['b']}), base formula gives {base}"))
    return out


def explore_staking(pid, tier, seed, monitor, nontrivial_key, rule, model_ok=True, focus=False, scale=1.0):
    ex = Exploration()
    ex.rule = rule
    nh, nops = budgets(tier)
    nh = max(8, int(nh * scale))
    seeds = [seed * 100000 + 50000 + i for i in range(nh)]
    hist = []
    with concurrent.futures.ProcessPoolExecutor(max_workers=16) as pool:
        for sd, cfg, trace in pool.map(_gen, [(s, nops) for s in seeds], chunksize=4):
            hist.append((sd, cfg, trace))
    terms = []
    for sd, cfg, trace in hist:
        tr = [(op, o) for op, o in trace if o is not None]
        ex.histories += 1
        ex.evaluations += len(tr)
        ops_all = [t[0] for t in trace]
        for idx, (op, o) in enumerate(trace):
            if o is None:
                continue
            ex.count("staking:" + op[0] + (":ok" if o["ok"] else ":err"))
            if not o["ok"]:
                ex.count("staking-err:" + o["msg"][:40])
            k = nontrivial_key(cfg, op, o)
            if k is not None:
                ex.nontrivial.add(k)
            for key, what in monitor(cfg, op, o):
                ex.failures.append(dict(key=key, what=what, replay=dict(system="staking", cfg=cfg, ops=ops_all[:idx + 1], seed=sd, observed=strip(o))))
        terms.append(ss.coq_history(cfg, tr))
        if len(ex.samples) < 3:
            ex.samples.append(dict(seed=sd, cfg=cfg, ops=[[op, "ok" if o["ok"] else o["msg"], o["outs"]] for op, o in tr[:12]]))
    if model_ok:
        res = coqrun.eval_terms(IMPORTS, terms, tag=pid + "s", per_file=max(1, min(8, len(terms) // 16 + 1)))
        ex.traces_validated = len(res)
        for (sd, cfg, trace), r in zip(hist, res):
            if r:
                tr = [(op, o) for op, o in trace if o is not None and op[0] != "Transfer"]
                i = r[0]
                ex.disagreements.append(dict(where="Run.StakingRun.check_trace", seed=sd, cfg=cfg, index=i, field=r[1],
                                             model=r[2], impl=r[3], op=tr[i][0], observed=strip(tr[i][1]),
                                             ops=[t[0] for t in trace]))
    return ex


def replay_staking(data, monitor):
    rp = data["replay"]
    ops = [[tuple(x) if isinstance(x, list) and len(x) == 2 and all(isinstance(y, int) for y in x) else x for x in op] for op in rp["ops"]]
    trace = ss.replay_history(rp["cfg"], ops)
    fails = []
    for op, o in trace:
        if o is None:
            continue
        for key, what in monitor(rp["cfg"], op, o):
            fails.append(dict(key=key, what=what))
    return fails
