"""C14 — router: one pair per unordered token pair, registered pairs only, pass-through multi-hop."""
import concurrent.futures
import sys_router as sr
import coqrun
from framework import Exploration

ASSUMPTIONS = ["A-VM"]
IMPORTS = "Base.Prelude Gen.Params Model.Pair Model.Router Run.RouterRun"
M = 100000
ROUTER, OWNER = sr.ROUTER, sr.OWNER
TOKS = range(1, sr.NTOK + 1)
RULE = ("stateful histories on the real router + pair template: createPair/removePair in both token orders by owner and "
        "users with public creation on/off, pairs deployed outside the router that report the tokens of registered pairs, "
        "removed pairs, non-pair addresses; pause/resume/setFeeOn/setFeeOff/setLocalRoles/issueLpToken/setSwapEnabledByUser "
        "on all of these; "
        "multiPairSwap with 1..4 hops mixing fixed-input/fixed-output, slippage bounds either side of the computed amount, "
        "repeated pairs, foreign addresses at any hop, tokens donated to the router beforehand. Non-trivial = successful "
        "multi-hop (distinct by hop count, in/out pattern, residual count, distinct pairs, fee state, magnitude), failed "
        "multi-hop after at least one valid hop, create/remove by (caller kind, creation flag, existing order), "
        "pair-management call by (endpoint, address kind, outcome)")


def addr_kind(state, ad):
    if ad == ROUTER:
        return "router"
    if ad in state["all"]:
        return "registered"
    if ad in state["pairs"]:
        p = state["pairs"][ad]
        twin = state["getpair"].get((p["t1"], p["t2"]), 0) if p["t1"] != p["t2"] else 0
        return "foreign-pair-same-tokens" if twin else "foreign-pair"
    return "non-pair"


def payments(o):
    xs = o["outs"]
    return [(xs[i], xs[i + 1]) for i in range(0, len(xs), 2)]


def amount_out(fee, ain, rin, rout):
    return ain * (M - fee) * rout // (rin * M + ain * (M - fee))


def amount_in(fee, aout, rin, rout):
    return rin * aout * M // ((rout - aout) * (M - fee)) + 1


def expected_hops(pre, tin, amt, hops):
    """What each pair alone gives for its hop (documented formulas on the pair's own reserves before the call; reserves
    tracked along the path).  Returns (payments, per-pair final (r1, r2)) or None when a pair with the special fee enabled
    is visited (its reserve update also depends on the fee routing, which is C03's subject, not C14's)."""
    sim = {}
    cur_t, cur = tin, amt
    resid = []
    for ad, f, tw, aw in hops:
        p = sim.setdefault(ad, dict(pre["pairs"][ad]))
        if p["fee_on"]:
            return None
        fwd = p["t1"] == cur_t
        ri, ro = (p["r1"], p["r2"]) if fwd else (p["r2"], p["r1"])
        if f == 0:
            out, used = amount_out(p["fee"], cur, ri, ro), cur
        else:
            out, used = aw, amount_in(p["fee"], aw, ri, ro)
            if cur - used > 0:
                resid.append((cur_t, cur - used))
        ri, ro = ri + used, ro - out
        p["r1"], p["r2"] = (ri, ro) if fwd else (ro, ri)
        cur_t, cur = tw, out
    return resid + [(cur_t, cur)], {ad: (p["r1"], p["r2"]) for ad, p in sim.items()}


def monitor(cfg, op, o):
    out = list(enable_swap_monitor(cfg, op, o))
    pre = o["pre"]
    k = op[0]
    # ---- one pair per unordered token pair; lookups order-insensitive (views getPair, getAllPairsManagedAddresses)
    gp = o["getpair"]
    for (a, b), v in gp.items():
        if a < b and gp[(b, a)] != v:
            out.append(("getpair-order-sensitive", f"after {op}: getPair({a},{b}) = {v} but getPair({b},{a}) = {gp[(b, a)]}"))
    found = sorted(v for (a, b), v in gp.items() if a < b and v != 0)
    if found != sorted(o["all"]):
        out.append(("registry-not-one-pair-per-token-pair",
                    f"after {op}: managed addresses {o['all']} but the unordered token pairs resolve to {found}"))
    # ---- creation guard
    if k == "CreatePair" and o["ok"]:
        _, c, a, b, adder, fees, na = op
        if c != OWNER and not pre["creation"]:
            out.append(("create-by-non-owner-while-disabled", f"{op} succeeded with public creation disabled"))
        # the switch as the OWNER last set it (tracked over the history, not read back from the contract)
        if c != OWNER and pre.get("creation_hist") is False:
            out.append(("create-by-non-owner-after-owner-disabled",
                        f"{op} succeeded although the owner's last successful setPairCreationEnabled was false (view says {pre['creation']})"))
        if pre["getpair"].get((a, b), 0) != 0 or pre["getpair"].get((b, a), 0) != 0:
            out.append(("create-over-existing-pair", f"{op} succeeded although getPair gave {pre['getpair'].get((a, b))}/{pre['getpair'].get((b, a))}"))
        if gp.get((a, b)) != na or gp.get((b, a)) != na:
            out.append(("created-pair-not-resolvable", f"{op}: getPair now gives {gp.get((a, b))}/{gp.get((b, a))}, created {na}"))
    if k == "SetCreation" and o["ok"]:
        if op[1] != OWNER:
            out.append(("creation-switch-set-by-non-owner", f"{op} succeeded for a non-owner"))
        elif bool(o["creation"]) != bool(op[2]):
            out.append(("creation-switch-not-applied", f"{op} succeeded but getPairCreationEnabled reads {o['creation']}"))
    # ---- removal: removePair in EITHER token order unregisters the pair (it can no longer be looked up, listed,
    #      managed or used as a hop - "only registered pairs ..." presupposes that a removed pair is not registered)
    if k == "RemovePair" and o["ok"]:
        _, c, a, b = op
        was = pre["getpair"].get((a, b), 0) or pre["getpair"].get((b, a), 0)
        if gp.get((a, b), 0) != 0 or gp.get((b, a), 0) != 0 or (was and was in o["all"]):
            out.append(("removed-pair-still-registered", f"{op} succeeded but getPair gives {gp.get((a, b))}/{gp.get((b, a))}, managed {o['all']}"))
    # ---- registered pairs only
    if o["ok"] and k in ("Pause", "Resume", "RSetFeeOn", "RSetFeeOff", "SetLocalRoles", "IssueLp", "EnableSwap"):
        ad = op[2]
        if ad != ROUTER and ad not in pre["all"]:
            out.append((f"unregistered-pair-accepted:{k}", f"{op} succeeded on {addr_kind(pre, ad)} address {ad}; managed {pre['all']}"))
    if k == "MultiSwap":
        _, c, tin, amt, hops = op
        if o["ok"]:
            for h in hops:
                if h[0] not in pre["all"]:
                    out.append(("unregistered-pair-accepted:hop", f"{op} succeeded through {addr_kind(pre, h[0])} address {h[0]}"))
            # ---- pass-through
            for t in TOKS:
                d = o["led"][(ROUTER, t)] - pre["led"][(ROUTER, t)]
                if d != 0:
                    out.append(("router-balance-changed", f"{op}: router balance of token {t} changed by {d}"))
            pays = payments(o)
            exp = {t: 0 for t in TOKS}
            exp[tin] -= amt
            for t, v in pays:
                exp[t] = exp.get(t, 0) + v
            for t in TOKS:
                d = o["led"][(c, t)] - pre["led"][(c, t)]
                if d != exp[t]:
                    out.append(("caller-delta-differs-from-payments", f"{op}: caller's token {t} changed by {d}, returned payments {pays} imply {exp[t]}"))
            for a in sr.LEDGER_ACCOUNTS:
                if a not in (c, ROUTER):
                    for t in TOKS:
                        if o["led"][(a, t)] != pre["led"][(a, t)]:
                            out.append(("third-party-balance-changed", f"{op}: account {a} token {t} changed"))
            if all(h[0] in pre["pairs"] for h in hops):
                e = expected_hops(pre, tin, amt, hops)
                if e is not None:
                    epays, eres = e
                    if epays != pays:
                        out.append(("hop-result-differs-from-pair-alone",
                                    f"{op}: returned {pays}; last output + fixed-output residuals computed pair by pair: {epays}"))
                    for ad, (r1, r2) in eres.items():
                        q = o["pairs"][ad]
                        if (q["r1"], q["r2"]) != (r1, r2):
                            out.append(("hop-pair-state-differs-from-pair-alone",
                                        f"{op}: pair {ad} reserves {(q['r1'], q['r2'])}, the same swaps sent to it directly give {(r1, r2)}"))
        elif o.get("unchanged") is False:
            out.append(("failed-multihop-changed-state", f"{op} failed ({o['msg']}) but router / pair storage or balances changed"))
    return out


def mag(n):
    return min(9, len(str(n)) // 3)


def nontrivial(cfg, op, o):
    pre = o["pre"]
    k = op[0]
    if k == "MultiSwap":
        _, c, tin, amt, hops = op
        n = len(hops)
        if o["ok"]:
            pays = payments(o)
            fee_on = any(pre["pairs"][h[0]]["fee_on"] for h in hops)
            donated = any(pre["led"][(ROUTER, t)] > 0 for t in TOKS)
            return ("ms", n, tuple(h[1] for h in hops), len(pays) - 1, len({h[0] for h in hops}), fee_on, donated, mag(amt))
        if n >= 2 and hops[0][0] in pre["all"]:
            kinds = tuple(addr_kind(pre, h[0])[:3] for h in hops)
            return ("ms-fail", n, kinds, o["msg"][:14])
        if n >= 1:
            return ("ms-fail1", addr_kind(pre, hops[0][0]), o["msg"][:14])
        return None
    if k == "CreatePair":
        _, c, a, b, adder, fees, na = op
        v = pre["getpair"].get((a, b), 0)
        ex = "none"
        if v:
            p = pre["pairs"][v]
            ex = "same" if (p["t1"], p["t2"]) == (a, b) else "reversed"
        return ("create", o["ok"], c == OWNER, pre["creation"], pre["active"], ex, a == b, fees is None, len(pre["all"]))
    if k == "RemovePair":
        _, c, a, b = op
        v = pre["getpair"].get((a, b), 0)
        order = "none"
        if v:
            p = pre["pairs"][v]
            order = "same" if (p["t1"], p["t2"]) == (a, b) else "reversed"
        return ("remove", o["ok"], c == OWNER, order, pre["active"], len(pre["all"]))
    if k in ("Pause", "Resume", "RSetFeeOn", "RSetFeeOff", "SetLocalRoles", "IssueLp"):
        return (k, o["ok"], op[1] == OWNER, addr_kind(pre, op[2]), pre["active"])
    if k == "EnableSwap":
        st = pre["pairs"][op[2]]["state"] if op[2] in pre["pairs"] else -1
        return (k, o["ok"], addr_kind(pre, op[2]), st, op[3], op[4] == op[2], pre["active"])
    if k == "UpgradePair":
        return (k, o["ok"], op[1] == OWNER, bool(pre["getpair"].get((op[2], op[3]), 0)))
    return None


def _gen(args):
    seed, nops = args
    cfg, trace = sr.gen_history(seed, nops)
    return seed, cfg, trace


def budgets(tier):
    return (48, 40) if tier == "quick" else (1600, 60)


def jsonable(x):
    if isinstance(x, dict):
        return {(k if isinstance(k, str) else str(k)): jsonable(v) for k, v in x.items()}
    if isinstance(x, (list, tuple)):
        return [jsonable(v) for v in x]
    return x


def strip(o):
    return jsonable({k: v for k, v in o.items() if k != "pre"})


def annotate(trace):
    """ghost: the public-creation switch as the owner's successful calls left it"""
    cur = bool(trace[0][1]["pre"]["creation"]) if trace else False
    for op, o in trace:
        o["pre"]["creation_hist"] = cur
        if op[0] == "SetCreation" and o["ok"] and op[1] == OWNER:
            cur = bool(op[2])
    return trace


def enable_swap_monitor(cfg, op, o):
    """setSwapEnabledByUser - the one way a NON-owner configures and resumes a pair - may only succeed on a pair that is in
    the ActiveNoSwaps (partial-active) state: a pair the owner paused, or an already active pair, must be refused"""
    if op[0] == "EnableSwap" and o["ok"]:
        pid = op[2]
        st = (o["pre"]["pairs"].get(pid) or {}).get("state")
        if st is not None and st != 2:
            return [("enable-swap-on-pair-not-in-active-no-swaps", f"{op} succeeded on pair {pid} whose state was {st} (0 = inactive / paused, 1 = active)")]
    return []


def explore(tier, seed, model_ok=True, focus=False, mon=None, tag="C14", scale=1.0):
    mon = mon or monitor
    ex = Exploration()
    ex.rule = RULE
    nh, nops = budgets(tier)
    nh = max(8, int(nh * scale))
    seeds = [seed * 100000 + i for i in range(nh)]
    hist = []
    with concurrent.futures.ProcessPoolExecutor(max_workers=16) as pool:
        for sd, cfg, trace in pool.map(_gen, [(s, nops) for s in seeds], chunksize=1 if nh <= 64 else 4):
            hist.append((sd, cfg, trace))
    terms = []
    for sd, cfg, trace in hist:
        ex.histories += 1
        ex.evaluations += len(trace)
        annotate(trace)
        for idx, (op, o) in enumerate(trace):
            ex.count(op[0] + (":ok" if o["ok"] else ":err"))
            ex.count("ok" if o["ok"] else "err")
            if op[0] == "MultiSwap":
                ex.count(f"MultiSwap:{len(op[4])}hops" + (":ok" if o["ok"] else ":err"))
            if not o["ok"]:
                ex.count("err:" + o["msg"][:40])
            k = nontrivial(cfg, op, o)
            if k is not None:
                ex.nontrivial.add(k)
            for key, what in mon(cfg, op, o):
                ex.failures.append(dict(key=key, what=what,
                                        replay=dict(system="router", cfg=cfg, ops=[t[0] for t in trace[:idx + 1]], seed=sd, observed=strip(o))))
        terms.append(sr.coq_history(cfg, trace))
        if len(ex.samples) < 3:
            ex.samples.append(dict(seed=sd, cfg=cfg, ops=[[op, "ok" if o["ok"] else o["msg"], o["outs"]] for op, o in trace[:12]]))
    if model_ok:
        res = coqrun.eval_terms(IMPORTS, terms, tag=tag, per_file=max(1, min(25, len(terms) // 16 + (1 if len(terms) % 16 else 0))))
        ex.traces_validated = len(res)
        for (sd, cfg, trace), r in zip(hist, res):
            if r:
                i = r[0]
                ex.disagreements.append(dict(where="Run.RouterRun.check_trace", seed=sd, cfg=cfg, index=i, field=r[1],
                                             model=r[2], impl=r[3], op=trace[i][0], observed=strip(trace[i][1]),
                                             ops=[t[0] for t in trace]))
    return ex


def replay(data):
    rp = data["replay"]
    trace = annotate(sr.replay_history(rp["cfg"], rp["ops"]))
    fails = []
    for op, o in trace:
        for key, what in monitor(rp["cfg"], op, o):
            fails.append(dict(key=key, what=what))
    return fails
