"""Exploration driver + monitors for the farm-with-locked-rewards part of C05, C06, C07
(real dex/farm-with-locked-rewards + real energy-factory, tools/sys_farm_locked.py; model
coq/Model/FarmLocked.v over coq/Model/Farm.v, trace checker coq/Run/FarmLockedRun.v).

The monitors evaluate the same predicates as props/c05.py, c06.py, c07.py on the real observations.
The one clause that differs is C05's balance clause: this farm never mints its rewards, so
"reserve = the contract's reward-token balance" does not apply; instead
  reserve = generated - paid      generated = sum of rate * blocks over the observed settlements (while producing),
                                  paid = sum of the LOCKED reward tokens users were observed to receive
  and the contract's own reward-token balance never moves through rewards (= donations, + principal when the
  farming token is the reward token).
`monitors_lock` is the contract-specific clause "rewards leave only as locked tokens" (receiver, amount,
original token, unlock epoch, energy of the receiver); it is kept apart from the C05 predicate.
"""
import concurrent.futures
import sys_farm_locked as sl
import coqrun
from framework import Exploration
from props.farm_common import into_part, merge, MAXP, budgets

IMPORTS = "Base.Prelude Gen.Params Model.Farm Run.FarmRun Model.FarmLocked Run.FarmLockedRun"
USER_OPS = ("Enter", "Claim", "Exit", "Merge", "ClaimBoosted")      # endpoints this contract has
SYSTEM = "farm-locked"


def _gen(args):
    seed, nops = args
    return (seed,) + tuple(sl.gen_history(seed, nops))


def strip(o):
    return {k: v for k, v in o.items() if k not in ("pre", "attrs", "held", "pre_energy", "energy")}


# ------------------------------------------------------------------ C05
def monitors_c05(cfg, op, o):
    out = []
    if not o["ok"]:
        m = o["msg"].lower()
        if op[0] in USER_OPS and ("cannot subtract because result would be negative" in m or "panic" in m or "overflow" in m):
            out.append((f"locked-counter-underflow:{op[0]}", f"{op} failed with '{o['msg']}'"))
        return out
    # reserve = generated - paid (both observed from outside the contract)
    if o["reserve"] != o["gen"] - o["paid"]:
        out.append(("locked-reserve-vs-generated-minus-paid",
                    f"after {op}: reserve {o['reserve']} != generated {o['gen']} - paid out as locked tokens {o['paid']} = {o['gen'] - o['paid']}"))
    # rewards are not taken from (or minted to) the contract's own reward-token balance
    exp_bal = o["donated"] + (o["supply"] if cfg["same"] else 0)
    if o["bal_rew"] != exp_bal:
        out.append(("locked-reward-balance-moved", f"after {op}: reward-token balance {o['bal_rew']} != donated {o['donated']}"
                    + (f" + principal {o['supply']}" if cfg["same"] else "")))
    if not cfg["same"] and o["bal_farming"] != o["supply"]:
        out.append(("locked-principal-not-backed", f"after {op}: farming tokens held {o['bal_farming']} != farm token supply {o['supply']}"))
    if o["pool"] > o["reserve"]:
        out.append(("locked-boosted-pools-exceed-reserve", f"after {op}: boosted pools {o['pool']} > reserve {o['reserve']}"))
    claimable = 0
    for key, v in o["held"].items():
        if v:
            a = o["attrs"].get(key // 1000)
            if a:
                claimable += v * max(0, o["rps"] - a[0])
    if claimable > cfg["dsc"] * (o["reserve"] - o["pool"]):
        out.append(("locked-reserve-does-not-cover-claims",
                    f"after {op}: claimable {claimable} > DSC*(reserve-pools) = {cfg['dsc'] * (o['reserve'] - o['pool'])}"))
    return out


def nontrivial_c05(cfg, op, o):
    if not o["ok"] or op[0] not in USER_OPS:
        return None
    pen = op[0] == "Exit" and o["outs"][0] < op[2][1]
    merged = (op[0] in ("Enter", "Claim") and len(op[3]) > 0) or (op[0] == "Merge" and len(op[2]) > 1)
    settled = o["rps"] > o["pre"]["rps"]
    if not (o["b"] > 0 or pen or merged or settled):
        return None
    return ("locked", op[0], o["b"] > 0, pen, merged, settled, o["locked_recv"] > 0, cfg["dsc"], cfg["same"], len(str(o["supply"])) // 4)


# ------------------------------------------------------------------ the contract's own clause: rewards leave only as locked tokens
def monitors_lock(cfg, op, o):
    out = []
    if o["farm_locked"] != 0:
        out.append(("locked-tokens-stuck-in-farm", f"after {op}: the farm holds {o['farm_locked']} LOCKED tokens"))
    if not o["ok"]:
        if o["recv"]:
            out.append(("locked-received-on-failure", f"{op} failed but LOCKED balances moved: {o['recv']}"))
        return out
    pos = sl.REWARD_POS.get(op[0])
    reward = o["outs"][pos] if pos is not None else 0
    exp = {}
    if reward > 0:
        ue = sl.unlock_epoch(o["ep"], o["pre"]["lockep"])
        exp = {op[1]: [(reward, True, 0, ue)]}
    got = {u: [(a, r, on, ue) for (n, a, r, on, ue) in v] for u, v in o["recv"].items()}
    if got != exp:
        out.append((f"locked-reward-payment:{op[0]}", f"{op} at epoch {o['ep']} (lockEpochs {o['pre']['lockep']}): reported reward {reward}; "
                    f"LOCKED received (user: amount, original token is reward token, original nonce, unlock epoch) {got}, expected {exp}"))
    # energy of the receiver grows by amount * (unlock epoch - now); nobody else's energy moves
    for u, (amt, tot) in o["energy"].items():
        pamt, ptot = o["pre_energy"][u]
        e_amt, e_tot = pamt, ptot
        for (a, r, on, ue) in got.get(u, []):
            e_amt += a * (ue - o["ep"])
            e_tot += a
        if (amt, tot) != (e_amt, e_tot):
            out.append(("locked-reward-energy", f"{op}: energy of user {u} {pamt}/{ptot} -> {amt}/{tot}, expected {e_amt}/{e_tot}"))
    return out


def monitors_c05_with_lock(cfg, op, o):
    """C05's predicate plus the definition of "paid out" for this contract (what users really received as LOCKED tokens)"""
    return monitors_c05(cfg, op, o) + monitors_lock(cfg, op, o)


# ------------------------------------------------------------------ C06
def expected_settle(pre, cfgp, blk, dsc):
    if blk <= pre["last"] or not cfgp["produce"]:
        return pre["rps"], 0, 0
    tm = cfgp["rate"] * (blk - pre["last"])
    cut = 0 if (cfgp["pct"] == 0 or not cfgp["factors"]) else tm * cfgp["pct"] // MAXP
    inc = 0 if pre["supply"] == 0 else (tm - cut) * dsc // pre["supply"]
    return pre["rps"] + inc, tm, cut


def monitors_c06(cfg, op, o):
    out = []
    pre, cp = o["pre"], o["pre_cfg"]
    if o["rps"] < pre["rps"]:
        out.append(("locked-index-decreased", f"{op}: reward per share went from {pre['rps']} to {o['rps']}"))
    if not o["ok"]:
        return out
    dsc = cfg["dsc"]
    if o["settles"]:
        exp, tm, cut = expected_settle(pre, cp, o["blk"], dsc)
        if o["rps"] != exp:
            out.append((f"locked-index-growth:{op[0]}", f"{op} at block {o['blk']}: index {pre['rps']} -> {o['rps']}, expected {exp} "
                        f"(rate {cp['rate']}, last {pre['last']}, supply {pre['supply']}, pct {cp['pct']})"))
        if o["blk"] > pre["last"] and o["last"] != o["blk"]:
            out.append(("locked-last-reward-block", f"{op}: last reward block {o['last']} after settling at {o['blk']}"))
    elif o["rps"] != pre["rps"]:
        out.append((f"locked-index-changed-without-settlement:{op[0]}", f"{op}: index {pre['rps']} -> {o['rps']}"))
    if op[0] in ("Claim", "Exit"):
        n0, x0 = op[2]
        a = pre["attrs"].get(n0)
        if a:
            base = x0 * (o["rps"] - a[0]) // dsc if o["rps"] > a[0] else 0
            paid = o["outs"][-1]
            if paid - o["b"] != base:
                out.append((f"locked-base-reward-formula:{op[0]}", f"{op}: paid {paid} (boosted {o['b']}), base formula gives {base} "
                            f"(index {o['rps']}, entry {a[0]}, DSC {dsc})"))
    if op[0] == "Enter" and not op[3]:
        a = o["new_attrs"].get(o["outs"][0])
        if a and a[0] != o["rps"]:
            out.append(("locked-entry-index", f"{op}: new position index {a[0]} != current index {o['rps']}"))
    if o["pool"] > o["reserve"]:
        out.append(("locked-over-issued", f"{op}: pools {o['pool']} exceed reserve {o['reserve']}"))
    return out


def nontrivial_c06(cfg, op, o):
    if not o["ok"]:
        return None
    pre, cp = o["pre"], o["pre_cfg"]
    dsc = cfg["dsc"]
    if o["settles"] and o["blk"] > pre["last"] and cp["produce"] and pre["supply"] > 0:
        tm = cp["rate"] * (o["blk"] - pre["last"])
        cut = 0 if (cp["pct"] == 0 or not cp["factors"]) else tm * cp["pct"] // MAXP
        inexact = ((tm - cut) * dsc) % pre["supply"] != 0
        kind = "admin" if op[0] in ("SetRate", "End", "SetPct") else "user"
        base_inexact = False
        if op[0] in ("Claim", "Exit"):
            a = pre["attrs"].get(op[2][0])
            base_inexact = bool(a) and (op[2][1] * (o["rps"] - a[0])) % dsc != 0
        if inexact or base_inexact or kind == "admin":
            return ("locked", op[0], kind, inexact, base_inexact, cut > 0, dsc, len(str(pre["supply"])) // 4)
    return None


# ------------------------------------------------------------------ C07
def expected_new_attrs(op, o):
    pre_at = o["pre"]["attrs"]
    k, c = op[0], op[1]
    if k == "Enter":
        base = (o["rps"], o["ep"], 0, op[2], c)
        rest = op[3]
    elif k == "Claim":
        a = pre_at.get(op[2][0])
        if not a:
            return None
        p = into_part(a, op[2][1])
        base = (o["rps"], p[1], p[2], p[3], c)
        rest = op[3]
    elif k == "Merge":
        a = pre_at.get(op[2][0][0])
        if not a:
            return None
        base = into_part(a, op[2][0][1])
        rest = op[2][1:]
    else:
        return None
    ceil_ne_floor = False
    for (n, x) in rest:
        a = pre_at.get(n)
        if not a:
            return None
        p = into_part(a, x)
        if (base[0] * base[3] + p[0] * p[3]) % (base[3] + p[3]) != 0:
            ceil_ne_floor = True
        base = merge(base, p)
    return base[:4] + (c,), ceil_ne_floor


def monitors_c07(cfg, op, o):
    out = []
    total = sum(o["held"].values()) + o["farm_held"]
    if total != o["supply"]:
        out.append(("locked-supply-vs-positions", f"after {op}: farm token supply {o['supply']} != sum of outstanding positions {total}"))
    for u, t in o["utot"].items():
        s = 0
        for key, v in o["held"].items():
            a = o["attrs"].get(key // 1000)
            if v and a and a[4] == u:
                s += v
        if s != t:
            out.append(("locked-owner-total", f"after {op}: user {u} total farm position {t} != sum of positions recorded as theirs {s}"))
    if o["ok"] and op[0] in ("Enter", "Claim", "Merge"):
        e = expected_new_attrs(op, o)
        got = o["new_attrs"].get(o["outs"][0])
        if e and got:
            exp, _ = e
            if tuple(got) != tuple(exp):
                out.append((f"locked-merged-attributes:{op[0]}", f"{op}: new position attributes {got}, split/merge rules give {exp}"))
    return out


def nontrivial_c07(cfg, op, o):
    if not o["ok"] or op[0] not in ("Enter", "Claim", "Merge", "Exit"):
        return None
    pre_at = o["pre"]["attrs"]
    pays = []
    if op[0] == "Enter":
        pays = op[3]
    elif op[0] == "Claim":
        pays = [op[2]] + op[3]
    elif op[0] == "Merge":
        pays = op[2]
    elif op[0] == "Exit":
        pays = [op[2]]
    foreign = any(pre_at.get(n) and pre_at[n][4] != op[1] for n, _ in pays)
    partial = any(pre_at.get(n) and pre_at[n][3] != x for n, x in pays)
    cnf = False
    e = expected_new_attrs(op, o) if op[0] in ("Enter", "Claim", "Merge") else None
    if e:
        cnf = e[1]
    if not (foreign or cnf or (partial and len(pays) > 1)):
        return None
    return ("locked", op[0], foreign, partial, cnf, len(pays), cfg["dsc"])


# ------------------------------------------------------------------ exploration
def corpus_locked(pid="C05"):
    """the fixed histories of corpus/<pid>/ (written for dex/farm) translated to this world: same operations;
    an energy change [Energy, u, energy, locked] becomes: user u locks `locked` base tokens with the first option"""
    import os, json, glob
    d = os.path.join(os.path.dirname(os.path.dirname(os.path.dirname(os.path.abspath(__file__)))), "corpus", pid)
    out = []
    for f in sorted(glob.glob(os.path.join(d, "*.json"))):
        c = json.load(open(f))
        cfg = dict(c["cfg"])
        cfg.setdefault("lockep", sl.LOCK_OPTIONS[0][0])
        ops = []
        for op in c["ops"]:
            if op[0] == "Compound":
                continue
            ops.append(["Energy", op[1], max(1, op[3]), 0] if op[0] == "Energy" else sl.fix_op(op))
        out.append(dict(name=c.get("name"), cfg=cfg, ops=ops))
    return out


def explore_locked(pid, tier, seed, monitor, nontrivial_key, rule, model_ok=True, focus=False, scale=1.0, nh=None, nops=None,
                   corpus=()):
    ex = Exploration()
    ex.rule = rule
    bh, bo = budgets(tier)
    nh = max(8, int(bh * scale)) if nh is None else nh
    nops = bo if nops is None else nops
    seeds = [seed * 100000 + 70000 + i for i in range(nh)]
    hist = []
    for c in corpus:
        hist.append((("corpus", c.get("name")), c["cfg"], sl.replay_history(c["cfg"], c["ops"])))
    with concurrent.futures.ProcessPoolExecutor(max_workers=16) as pool:
        for sd, cfg, trace in pool.map(_gen, [(s, nops) for s in seeds], chunksize=4):
            hist.append((sd, cfg, trace))
    terms = []
    for sd, cfg, trace in hist:
        tr = [(op, o) for op, o in trace if o is not None]
        ex.histories += 1
        ex.evaluations += len(tr)
        ops_all = [t[0] for t in trace]
        ex.count("locked:cfg:boost" if cfg["boost"] else "locked:cfg:no-boost")
        for idx, (op, o) in enumerate(trace):
            if o is None:
                ex.count("locked:" + op[0] + ":env")
                continue
            ex.count("locked:" + op[0] + (":ok" if o["ok"] else ":err"))
            ex.count("locked:ops:ok" if o["ok"] else "locked:ops:err")
            if not o["ok"]:
                ex.count("locked-err:" + o["msg"][:40])
            if o.get("b", 0) > 0:
                ex.count("locked:boosted-payout>0")
            if o.get("locked_recv", 0) > 0:
                ex.count("locked:locked-reward-received")
            k = nontrivial_key(cfg, op, o)
            if k is not None:
                ex.nontrivial.add(k)
            for key, what in monitor(cfg, op, o):
                ex.failures.append(dict(key=key, what=what, replay=dict(system=SYSTEM, cfg=cfg, ops=ops_all[:idx + 1], seed=sd, observed=strip(o))))
        terms.append(sl.coq_history(cfg, tr))
        if len(ex.samples) < 3:
            ex.samples.append(dict(system=SYSTEM, seed=sd, cfg=cfg, ops=[[op, "ok" if o["ok"] else o["msg"], o["outs"]] for op, o in tr[:12]]))
    if model_ok:
        res = coqrun.eval_terms(IMPORTS, terms, tag=pid + "l", per_file=max(1, min(8, len(terms) // 16 + 1)))
        ex.traces_validated = len(res)
        for (sd, cfg, trace), r in zip(hist, res):
            if r:
                tr = [(op, o) for op, o in trace if o is not None]
                i = r[0]
                ex.disagreements.append(dict(where="Run.FarmLockedRun.lcheck_trace", system=SYSTEM, seed=sd, cfg=cfg, index=i, field=r[1],
                                             model=r[2], impl=r[3], op=tr[i][0], observed=strip(tr[i][1]),
                                             ops=[t[0] for t in trace]))
    return ex


def replay_locked(data, monitor):
    rp = data["replay"]
    trace = sl.replay_history(rp["cfg"], rp["ops"])
    fails = []
    for op, o in trace:
        if o is None:
            continue
        for key, what in monitor(rp["cfg"], op, o):
            fails.append(dict(key=key, what=what))
    return fails


def merge_into(ex, ex2):
    """add a second exploration to the first (the way props/c06.py adds the staking exploration)"""
    ex.evaluations += ex2.evaluations
    ex.histories += ex2.histories
    ex.nontrivial |= ex2.nontrivial
    ex.failures += ex2.failures
    ex.disagreements += ex2.disagreements
    ex.traces_validated += ex2.traces_validated
    ex.samples += ex2.samples[:1]
    for k, v in ex2.counters.items():
        ex.counters[k] = ex.counters.get(k, 0) + v
    return ex
