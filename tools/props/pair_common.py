"""Shared exploration driver for the pair properties C01–C04 (and the pair part of C19/C20)."""
import json, random, concurrent.futures
import sys_pair as sp
import coqrun
from framework import Exploration

IMPORTS = "Base.Prelude Gen.Params Model.Pair Run.PairRun"
M = 100000


def _gen(args):
    seed, nops = args
    cfg, trace = sp.gen_history(seed, nops)
    return seed, cfg, trace


def budgets(tier):
    return (48, 40) if tier == "quick" else (1600, 60)


def strip(o):
    return {k: v for k, v in o.items() if k != "pre"}


def explore_pair(pid, tier, seed, monitor, nontrivial_key, rule, model_ok=True, focus=False, corpus=()):
    """monitor(cfg, op, o) -> list of (key, what); nontrivial_key(cfg, op, o) -> hashable or None"""
    ex = Exploration()
    ex.rule = rule
    nh, nops = budgets(tier)
    seeds = [seed * 100000 + i for i in range(nh)]
    hist = []
    # corpus first (minimised regressions), then fresh histories
    for c in corpus:
        tr = sp.replay_history(c["cfg"], c["ops"])
        hist.append((("corpus", c.get("name")), c["cfg"], tr))
    with concurrent.futures.ProcessPoolExecutor(max_workers=16) as pool:
        for sd, cfg, trace in pool.map(_gen, [(s, nops) for s in seeds], chunksize=4):
            hist.append((sd, cfg, trace))
    terms = []
    for sd, cfg, trace in hist:
        tr = [(op, o) for op, o in trace if o is not None]
        ex.histories += 1
        ex.evaluations += len(tr)
        for i, (op, o) in enumerate(tr):
            ex.count(op[0] + (":ok" if o["ok"] else ":err"))
            if not o["ok"]:
                ex.count("err:" + o["msg"][:40])
                if o.get("unchanged") is False:
                    ex.failures.append(dict(key="failed-tx-changed-state", what=f"{op} failed but pair storage/balances changed",
                                            replay=dict(cfg=cfg, ops=[t[0] for t in trace[:trace.index((op, o)) + 1]])))
            k = nontrivial_key(cfg, op, o)
            if k is not None:
                ex.nontrivial.add(k)
            for key, what in monitor(cfg, op, o):
                ops_prefix = [t[0] for t in trace]
                idx = [j for j, t in enumerate(trace) if t[1] is o][0]
                ex.failures.append(dict(key=key, what=what, replay=dict(cfg=cfg, ops=ops_prefix[:idx + 1], seed=sd,
                                                                          observed=strip(o))))
        terms.append(sp.coq_history(cfg, tr))
        if len(ex.samples) < 3:
            ex.samples.append(dict(seed=sd, cfg=cfg, ops=[[op, "ok" if o["ok"] else o["msg"], o["outs"]] for op, o in tr[:12]]))
    if model_ok:
        res = coqrun.eval_terms(IMPORTS, terms, tag=pid, per_file=max(1, min(25, len(terms) // 16 + 1)))
        ex.traces_validated = len(res)
        for (sd, cfg, trace), r in zip(hist, res):
            if r:
                tr = [(op, o) for op, o in trace if o is not None]
                i = r[0]
                ex.disagreements.append(dict(where="Run.PairRun.check_trace", seed=sd, cfg=cfg, index=i, field=r[1],
                                             model=r[2], impl=r[3], op=tr[i][0], observed=strip(tr[i][1]),
                                             ops=[t[0] for t in trace]))
    return ex


def replay_pair(data, monitor):
    rp = data["replay"]
    trace = sp.replay_history(rp["cfg"], rp["ops"])
    fails = []
    for op, o in trace:
        if o is None:
            continue
        for key, what in monitor(rp["cfg"], op, o):
            fails.append(dict(key=key, what=what))
    return fails
