"""Shared exploration driver for the farm properties C05, C06, C07 (dex/farm)."""
import concurrent.futures
import sys_farm as sf
import coqrun
from framework import Exploration

IMPORTS = "Base.Prelude Gen.Params Model.Farm Run.FarmRun"
MAXP = 10000


def _gen(args):
    seed, nops = args
    return (seed,) + tuple(sf.gen_history(seed, nops))


def budgets(tier):
    return (48, 45) if tier == "quick" else (1200, 60)


def strip(o):
    return {k: v for k, v in o.items() if k not in ("pre", "attrs", "held")}


def ceil_avg(v1, w1, v2, w2):
    return (v1 * w1 + v2 * w2 + (w1 + w2) - 1) // (w1 + w2)


def into_part(a, x):
    rps, ep, comp, amt, owner = a
    if x == amt:
        return a
    return (rps, ep, comp * x // amt, x, owner)


def merge(a, b):
    return (ceil_avg(a[0], a[3], b[0], b[3]), max(a[1], b[1]), a[2] + b[2], a[3] + b[3], a[4])


def explore_farm(pid, tier, seed, monitor, nontrivial_key, rule, model_ok=True, focus=False, corpus=()):
    ex = Exploration()
    ex.rule = rule
    nh, nops = budgets(tier)
    seeds = [seed * 100000 + i for i in range(nh)]
    hist = []
    for c in corpus:
        hist.append((("corpus", c.get("name")), c["cfg"], sf.replay_history(c["cfg"], c["ops"])))
    with concurrent.futures.ProcessPoolExecutor(max_workers=16) as pool:
        for sd, cfg, trace in pool.map(_gen, [(s, nops) for s in seeds], chunksize=4):
            hist.append((sd, cfg, trace))
    terms = []
    for sd, cfg, trace in hist:
        tr = [(op, o) for op, o in trace if o is not None]
        ex.histories += 1
        ex.evaluations += len(tr)
        ops_all = [t[0] for t in trace]
        for idx, (op, o) in enumerate(trace):
            if o is None:
                continue
            ex.count(op[0] + (":ok" if o["ok"] else ":err"))
            if not o["ok"]:
                ex.count("err:" + o["msg"][:40])
            if o.get("b", 0) > 0:
                ex.count("boosted-payout>0")
            k = nontrivial_key(cfg, op, o)
            if k is not None:
                ex.nontrivial.add(k)
            for key, what in monitor(cfg, op, o):
                ex.failures.append(dict(key=key, what=what, replay=dict(cfg=cfg, ops=ops_all[:idx + 1], seed=sd, observed=strip(o))))
        terms.append(sf.coq_history(cfg, tr))
        if len(ex.samples) < 3:
            ex.samples.append(dict(seed=sd, cfg=cfg, ops=[[op, "ok" if o["ok"] else o["msg"], o["outs"]] for op, o in tr[:12]]))
    if model_ok:
        res = coqrun.eval_terms(IMPORTS, terms, tag=pid, per_file=max(1, min(8, len(terms) // 16 + 1)))
        ex.traces_validated = len(res)
        for (sd, cfg, trace), r in zip(hist, res):
            if r:
                tr = [(op, o) for op, o in trace if o is not None]
                i = r[0]
                ex.disagreements.append(dict(where="Run.FarmRun.check_trace", seed=sd, cfg=cfg, index=i, field=r[1],
                                             model=r[2], impl=r[3], op=tr[i][0], observed=strip(tr[i][1]),
                                             ops=[t[0] for t in trace]))
    return ex


def replay_farm(data, monitor):
    rp = data["replay"]
    trace = sf.replay_history(rp["cfg"], rp["ops"])
    fails = []
    for op, o in trace:
        if o is None:
            continue
        for key, what in monitor(rp["cfg"], op, o):
            fails.append(dict(key=key, what=what))
    return fails
