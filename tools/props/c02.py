"""C02 — K/S^2 never decreases; no round-trip profit."""
from props.pair_common import explore_pair, replay_pair

ASSUMPTIONS = ["A-VM"]
RULE = ("same generator as C01; non-trivial = successful pool operation where rounding matters: fee = 0, or a "
        "reserve < 10^4, or ratio >= 10^9, or output within 3 units of the reserve; distinct by (op, class flags, magnitudes)")

POOL_OPS = ("Add", "Remove", "SwapIn", "SwapOut", "SwapNoFee", "RemoveBuyBack")


def monitor(cfg, op, o):
    out = []
    pre = o["pre"]
    if o["ok"] and pre["S"] > 0:
        if pre["r1"] * pre["r2"] * o["S"] ** 2 > o["r1"] * o["r2"] * pre["S"] ** 2:
            out.append((f"k-over-s2-decreased:{op[0]}",
                        f"K/S^2 decreased by {op}: ({pre['r1']},{pre['r2']},{pre['S']}) -> ({o['r1']},{o['r2']},{o['S']})"))
    if o["ok"] and op[0] in ("SwapIn", "SwapOut", "SwapNoFee"):
        # a single swap is a swap sequence: reserves must not both fail to grow with one shrinking
        if o["r1"] <= pre["r1"] and o["r2"] <= pre["r2"] and (o["r1"] < pre["r1"] or o["r2"] < pre["r2"]):
            out.append(("swap-took-value", f"{op} left reserves ({o['r1']},{o['r2']}) from ({pre['r1']},{pre['r2']})"))
    return out


def nontrivial(cfg, op, o):
    if not o["ok"] or op[0] not in POOL_OPS:
        return None
    pre = o["pre"]
    if pre["S"] == 0:
        return None
    lo, hi = min(pre["r1"], pre["r2"]), max(pre["r1"], pre["r2"])
    flags = (pre["fee"] == 0, lo < 10 ** 4, hi >= lo * 10 ** 9, min(o["r1"], o["r2"]) <= 3)
    if not any(flags):
        return None
    return (op[0],) + flags + (len(str(lo)) // 3, len(str(hi)) // 6)


def explore(tier, seed, model_ok=True, focus=False):
    return explore_pair("C02", tier, seed, monitor, nontrivial, RULE, model_ok, focus)


def replay(data):
    return replay_pair(data, monitor)
