"""dex/farm as a whole (closed model Model/FarmFull.v, world tools/sys_farm_full.py): exploration driver and the
monitors that only the composition can state, evaluated on REAL observations:

  link-*                the farm's side of the boosted money (cuts taken out of the emissions, as the reward-per-share
                        growth and the reserve show them, minus the boosted part of every reward payment) against the
                        boosted module's books (sum over weeks of accumulated + remaining, + undistributed);
  reserve-covers-*      C05: the reported reserve covers every claimable base reward (floor form and un-floored) plus the
                        ACTUAL weekly pools;
  negative-counter:*    C05 last clause / C11_no_underflow: no enter / claim / compound / exit / merge / claimBoosted fails
                        because a counter (reserve, supply, user total, remaining(week), bucket, total energy) would go
                        negative;
  week-*                per week: payments never exceed the frozen pool, remaining = pool - payments.
The model is used by the correspondence run only (Run/FarmFullRun.v check_trace)."""
import concurrent.futures
import sys_farm as sf
import sys_boosted as sb
import sys_farm_full as sx
import coqrun
from framework import Exploration

IMPORTS = ("Base.Prelude Gen.Params Model.Weekly Model.Farm Model.Boosted Model.FarmFull "
           "Run.FarmRun Run.BoostedRun Run.FarmFullRun")
MAXP = 10000
USER_OPS = sx.USER_OPS
RULE = ("closed dex/farm: stateful mostly-valid generator of tools/sys_farm.py with boosted yields on (enter with merge, claim, "
        "compound, exit (partial), merge, claimBoosted, position transfers, energy changes at the factory, admin rate / "
        "percentage / factors / pause changes, top-ups, block / epoch advances) extended by week changes followed by holders "
        "settling, transfers in the new week followed by the receiver using the received position (optionally after the "
        "sender settled), factor changes right after a week change, collectUndistributedBoostedRewards by admin / non-admin, "
        "updateEnergyForUser; the operation carries only the caller's arguments and the factory's stored energy entry; "
        "DSC in {1,10,1e6,1e12,1e18}; non-trivial = successful user operation with a boosted payout, a settlement that books "
        "a slice, or a collect that sweeps a non-empty week; distinct by (op, weeks paid, received position, magnitudes)")


def _gen(args):
    seed, nops = args
    return (seed,) + tuple(sx.gen_history(seed, nops))


def budgets(tier):
    return (48, 40) if tier == "quick" else (1200, 60)


def strip(o):
    d = {k: v for k, v in o.items() if k not in ("pre", "attrs", "held", "m")}
    if "m" in o:
        d["m"] = {k: v for k, v in o["m"].items() if k not in ("pre", "owner_of", "held")}
    return d


def payments_of(op):
    k = op[0]
    if k == "Enter":
        return list(op[3])
    if k in ("Claim", "Compound"):
        return [op[2]] + list(op[3])
    if k == "Exit":
        return [op[2]]
    if k == "Merge":
        return list(op[2])
    return []


def module_pools(m):
    return m["und"] + sum(m["acc"].values()) + sum(m["rem"].values())


def boosted_part(cfg, op, o):
    """boosted part of what the farm paid in this operation, from the FARM side: the separately returned boosted payment
    (enter / merge / claimBoosted), or the reward payment minus the base reward the position's attributes give"""
    k = op[0]
    if k in ("Enter", "Merge"):
        return o["outs"][2]
    if k == "ClaimBoosted":
        return o["outs"][0]
    if k in ("Claim", "Exit", "Compound"):
        n, x = op[2]
        a = o["pre"]["attrs"].get(n)
        if not a:
            return None
        base = x * (o["rps"] - a[0]) // cfg["dsc"] if o["rps"] > a[0] else 0
        total = o["outs"][2] if k == "Claim" else o["outs"][1] if k == "Exit" else o["supply"] - o["pre"]["supply"]
        return total - base
    return 0


# ------------------------------------------------------------------ monitors
def monitors_link(cfg, op, o):
    out = []
    k = op[0]
    if not o["ok"]:
        return out
    m, pm, pre, pc = o["m"], o["m"]["pre"], o["pre"], o["pre_cfg"]
    cw = m["week"]
    em = o["emission"]
    cut = em * pc["pct"] // MAXP if (pc["pct"] > 0 and pc["factors"]) else 0
    # (1) the module books exactly the slice the farm cuts out of this settlement, in the running week
    if k != "Time" and m["cut"] != cut:
        out.append((f"link-slice:{k}", f"{op} at week {cw}: accumulated({cw}) grew by {m['cut']}, the farm's emission {em} * {pc['pct']} / 10000 = {cut} (factors set: {pc['factors']})"))
    # ... and the farm distributes exactly the rest: reward per share grows by (emission - booked slice) * DSC / supply
    if o["settles"]:
        inc = (em - m["cut"]) * cfg["dsc"] // pre["supply"] if (pre["supply"] > 0 and em > 0) else 0
        if o["rps"] - pre["rps"] != inc:
            out.append((f"link-base-share:{k}", f"{op}: reward per share +{o['rps'] - pre['rps']}, (emission {em} - booked slice {m['cut']}) * DSC / supply {pre['supply']} = {inc}"))
    # (2) farm-side pool movement = module-side pool movement
    bp = boosted_part(cfg, op, o)
    if bp is not None:
        d_mod = module_pools(m) - module_pools(pm)
        if d_mod != cut - bp:
            out.append((f"link-pool-delta:{k}", f"{op}: weekly pools + undistributed moved by {d_mod}, farm side: slice {cut} - boosted part of the payment {bp}"))
        if bp != m["b"]:
            out.append((f"link-boosted-payment:{k}", f"{op}: boosted part of the farm's payment {bp} != decrease of the completed weeks' pools {m['b']}"))
        if bp < 0:
            out.append((f"link-negative-boosted:{k}", f"{op}: boosted part {bp}"))
    # (3) reserve movement: + emission - everything paid
    paid_total = 0
    if k in ("Enter", "Merge"):
        paid_total = o["outs"][2]
    elif k == "ClaimBoosted":
        paid_total = o["outs"][0]
    elif k == "Claim":
        paid_total = o["outs"][2]
    elif k == "Exit":
        paid_total = o["outs"][1]
    elif k == "Compound":
        paid_total = o["supply"] - pre["supply"]
    if o["reserve"] - pre["reserve"] != em - paid_total:
        out.append((f"link-reserve-delta:{k}", f"{op}: reserve {pre['reserve']} -> {o['reserve']}, emission {em}, paid {paid_total}"))
    return out


def monitors_c05(cfg, op, o):
    out = []
    k = op[0]
    if not o["ok"]:
        msg = o["msg"].lower()
        if k in USER_OPS and ("cannot subtract because result would be negative" in msg or "panic" in msg or "overflow" in msg or "division" in msg):
            out.append((f"negative-counter:{k}", f"{op} (week {o['m']['week']}) failed with '{o['msg']}'"))
        return out
    m = o["m"]
    pools = module_pools(m)
    if pools > o["reserve"]:
        out.append(("reserve-covers-pools", f"after {op}: weekly pools + undistributed {pools} > reserve {o['reserve']}"))
    unfl, fl = 0, 0
    for key, v in o["held"].items():
        if v:
            a = o["attrs"].get(key // 1000)
            if a:
                unfl += v * max(0, o["rps"] - a[0])
                fl += v * max(0, o["rps"] - a[0]) // cfg["dsc"]
    if unfl > cfg["dsc"] * (o["reserve"] - pools):
        out.append(("reserve-covers-claims", f"after {op}: claimable {unfl} > DSC * (reserve {o['reserve']} - weekly pools {pools})"))
    if fl + pools > o["reserve"]:
        out.append(("reserve-covers-claims-floor", f"after {op}: claimable base rewards {fl} + weekly pools {pools} > reserve {o['reserve']}"))
    return out


def monitors_c11(cfg, op, o):
    out = []
    if not o["ok"]:
        return out
    m = o["m"]
    led = o["ledger"]
    swept_to = m["lastcol"]
    for w, R in led["frozen"].items():
        p = led["paid"].get(w, 0)
        if p > R:
            out.append(("week-overpaid", f"after {op}: week {w} paid {p} in total > frozen pool {R}"))
        if w > swept_to and m["rem"].get(w, 0) != R - p:
            out.append(("week-remaining", f"after {op}: remaining({w}) = {m['rem'].get(w, 0)}, pool {R} - paid {p} = {R - p}"))
    for w, p in led["paid"].items():
        if p and w not in led["frozen"]:
            out.append(("week-paid-unfrozen", f"after {op}: week {w} paid {p}, its pool was never frozen"))
    # C11_no_underflow (Proofs/FarmFullProofs.v nu_FI / e_EI on real observations): for every week of the claim window
    # that has a pool, the positions / energies its settlements were computed with so far, plus those of the recorded
    # users who can still claim it (claim progress at or before the week), stay within the week's farm supply / total energy
    cw = m["week"]
    for w in range(max(1, cw - sb.MAX_CLAIM_WEEKS), cw):
        rw = m["rewards"].get(w)
        R = rw[0] if rw else m["acc"].get(w, 0)
        F, E = m["sup"].get(w, 0), m["energy"].get(w, 0)
        if not R:
            continue
        pend = [(u, pg) for u, pg in m["prog"].items() if pg and pg[3] <= w]
        if F:
            tot = led["used_f"].get(w, 0) + sum(o["utot"].get(u, 0) for u, _ in pend)
            if tot > F:
                out.append(("week-oversubscribed:position", f"after {op} (week {cw}): week {w} pool {R}: positions used {led['used_f'].get(w, 0)} + still claimable {tot - led['used_f'].get(w, 0)} > farm supply of the week {F}"))
        if E:
            tot = led["used_e"].get(w, 0) + sum(sb.decayed(pg, w) for _, pg in pend)
            if tot > E:
                out.append(("week-oversubscribed:energy", f"after {op} (week {cw}): week {w}: energies used {led['used_e'].get(w, 0)} + still claimable {tot - led['used_e'].get(w, 0)} > total energy of the week {E}"))
    return out


def monitors_all(cfg, op, o):
    return monitors_link(cfg, op, o) + monitors_c05(cfg, op, o) + monitors_c11(cfg, op, o)


def monitors_for_c05(cfg, op, o):
    """what C05 adds from the closed farm: link of the farm's money to the module's books, reserve covers claims + the
    actual weekly pools, no legitimate user operation fails on a negative counter"""
    return monitors_link(cfg, op, o) + monitors_c05(cfg, op, o)


def monitors_for_c11(cfg, op, o):
    """what C11 adds from the closed farm: per-week payments within the pool, positions / energies of a week's settlements
    within the week's totals (C11_no_underflow), no user operation aborts on remaining(week), the module books exactly
    the farm's slice and pays exactly what the farm hands out"""
    return (monitors_c11(cfg, op, o) + [x for x in monitors_c05(cfg, op, o) if x[0].startswith("negative-counter")]
            + [x for x in monitors_link(cfg, op, o) if x[0].startswith(("link-slice", "link-boosted-payment", "link-pool-delta"))])


def nontrivial_all(cfg, op, o):
    if not o["ok"]:
        return None
    k = op[0]
    m = o["m"]
    mag = len(str(max(1, o["supply"]))) // 5
    if k in USER_OPS and m["b"] > 0:
        pre_at = o["pre"]["attrs"]
        foreign = any(pre_at.get(n) and pre_at[n][4] != op[1] for n, _ in payments_of(op))
        return ("full", k, len(m["paid"]), foreign, cfg["dsc"], cfg["same"], mag)
    if k == "Collect" and m["und"] > m["pre"]["und"]:
        return ("full", k, m["lastcol"] - m["pre"]["lastcol"])
    if m["cut"] > 0:
        return ("full-slice", k, cfg["dsc"], mag)
    return None


# ------------------------------------------------------------------ exploration
def explore_farm_full(pid, tier, seed, monitor=monitors_all, nontrivial=nontrivial_all, rule=RULE, model_ok=True, focus=False, scale=1.0,
                      gen=None, nh=None, nops=None):
    ex = Exploration()
    ex.rule = rule
    bh, bo = budgets(tier)
    nh = nh or max(8, int(bh * scale))
    nops = nops or bo
    seeds = [seed * 100000 + 90000 + i for i in range(nh)]
    hist = []
    with concurrent.futures.ProcessPoolExecutor(max_workers=16) as pool:
        for sd, cfg, trace in pool.map(gen or _gen, [(s, nops) for s in seeds], chunksize=4):
            hist.append((sd, cfg, trace))
    terms = []
    for sd, cfg, trace in hist:
        tr = [(op, o) for op, o in trace if o is not None]
        ex.histories += 1
        ex.evaluations += len(tr)
        ops_all = [t[0] for t in trace]
        for idx, (op, o) in enumerate(trace):
            if o is None:
                continue
            ex.count("full:" + op[0] + (":ok" if o["ok"] else ":err"))
            ex.count("full:ops-ok" if o["ok"] else "full:ops-err")
            if not o["ok"]:
                ex.count("full-err:" + o["msg"][:40])
            else:
                m = o["m"]
                if m["b"] > 0:
                    ex.count("full:boosted-payout>0")
                    if len(m["paid"]) > 1:
                        ex.count("full:boosted-payout-several-weeks")
                    pre_at = o["pre"]["attrs"]
                    if any(pre_at.get(n) and pre_at[n][4] != op[1] for n, _ in payments_of(op)):
                        ex.count("full:boosted-payout-with-received-position")
                if m["cut"] > 0:
                    ex.count("full:slice-booked")
                if op[0] == "Collect" and m["und"] > m["pre"]["und"]:
                    ex.count("full:collect-swept>0")
                if any(r and not m["pre"]["rewards"].get(w) for w, r in m["rewards"].items()):
                    ex.count("full:week-frozen")
            k = nontrivial(cfg, op, o)
            if k is not None:
                ex.nontrivial.add(k)
            for key, what in monitor(cfg, op, o):
                ex.failures.append(dict(key=key, what=what, replay=dict(system="farm-full", cfg=cfg, ops=ops_all[:idx + 1], seed=sd, observed=strip(o))))
        terms.append(sx.coq_history(cfg, tr))
        if len(ex.samples) < 3:
            ex.samples.append(dict(seed=sd, cfg=cfg, ops=[[op, "ok" if o["ok"] else o["msg"], o["outs"]] for op, o in tr[:12]]))
    if model_ok:
        res = coqrun.eval_terms(IMPORTS, terms, tag=pid + "ff", per_file=max(1, min(8, len(terms) // 16 + 1)))
        ex.traces_validated = len(res)
        for (sd, cfg, trace), r in zip(hist, res):
            if r:
                tr = [(op, o) for op, o in trace if o is not None]
                i = r[0]
                ex.disagreements.append(dict(where="Run.FarmFullRun.check_trace", seed=sd, cfg=cfg, index=i, field=r[1],
                                             model=r[2], impl=r[3], op=tr[i][0], observed=strip(tr[i][1]),
                                             ops=[t[0] for t in trace]))
    return ex


def replay_farm_full(data, monitor=monitors_all):
    rp = data["replay"]
    trace = sx.replay_history(rp["cfg"], rp["ops"])
    fails = []
    for op, o in trace:
        if o is None:
            continue
        for key, what in monitor(rp["cfg"], op, o):
            fails.append(dict(key=key, what=what))
    return fails


def merge_exploration(ex, ex2):
    """fold a closed-farm exploration into a property's main exploration"""
    ex.evaluations += ex2.evaluations
    ex.histories += ex2.histories
    ex.nontrivial |= ex2.nontrivial
    ex.failures += ex2.failures
    ex.disagreements += ex2.disagreements
    ex.traces_validated += ex2.traces_validated
    ex.samples += ex2.samples[:1]
    for k, v in ex2.counters.items():
        ex.counters[k] = ex.counters.get(k, 0) + v
    return ex
