"""C09 — locking is 1:1 and time-locked; early exit costs exactly the documented penalty."""
import concurrent.futures, random
import sys_locking as sl
import coqrun
from framework import Exploration

ASSUMPTIONS = ["A-VM", "A-U64",
               "A-C09-ENV: histories use the endpoints lockTokens (base asset or LOCKED), lockVirtual (destination = energy "
               "address), unlockTokens, unlockEarly, reduceLockPeriod, claimUnlockedTokens, cancelUnbond, addLockOptions, "
               "setFeesBurnPercentage, pause/unpause; no direct LOCKED transfers between accounts, no mergeTokens / migration "
               "(C08's subject), fees collector wired as known contract"]
IMPORTS = "Base.Prelude Gen.Params Model.Penalty Run.EnergyRun"
MAXP = 10000
UNSTAKE = sl.UNSTAKE
RULE = ("(a) view sweep: per sampled option set (1..10 options, epochs >= 360 on and off month boundaries, percentages "
        "strictly increasing incl. 0 and 10000) getPenaltyAmount is queried for EVERY remaining-epochs value 0..e_last+2 "
        "x every new value in {0} + options (+ start-of-month normalisations) at amount 10000 (exhaustive for the set), "
        "plus a random share of rows with 1-unit / boundary / log-uniform amounts; (b) histories: stateful mostly-valid "
        "generator over lock / extend / lockVirtual / unlock / unlockEarly / reduce / claim / cancel / admin / epoch jumps "
        "aimed at unlock and unbond boundaries (e-1, e, e+1), unbond 0..30, burn percentage 0..10000, amounts 1 unit, "
        "small, 10000+-1, log-uniform to 1e22, whole balance. Non-trivial = successful penalty-bearing or time-lock-"
        "boundary operation (penalty > 0 or some floor inexact, unlock/claim exactly at or one epoch after the boundary, "
        "multi-entry claim/cancel) or a sweep cell whose interpolation is inexact; distinct by (operation, segment index, "
        "new-option index, amount magnitude, which floors are inexact, burn class, queue length / boundary offset) and for "
        "the sweep by (option set, segment, new value, inexactness)")


# ------------------------------------------------------------------ the documented formulas
def pct_full_doc(opts, x):
    """piecewise-linear interpolation between (0,0) and the configured options, rounded down"""
    pts = [(0, 0)] + [tuple(o) for o in opts]
    if x < 0 or x > pts[-1][0]:
        return None
    for (e0, p0), (e1, p1) in zip(pts, pts[1:]):
        if e0 <= x <= e1:
            return (p0 * (e1 - x) + p1 * (x - e0)) // (e1 - e0)
    return None


def pct_doc(opts, prev, new):
    if prev <= 0 or new >= prev or new < 0:
        return None
    po = pct_full_doc(opts, prev)
    if po is None:
        return None
    if new == 0:
        return po
    pn = pct_full_doc(opts, new)
    if pn is None or pn >= MAXP or pn > po:
        return None
    return (po - pn) * MAXP // (MAXP - pn)


def penalty_doc(opts, amt, prev, new):
    p = pct_doc(opts, prev, new)
    return None if p is None else amt * p // MAXP


def seg_index(opts, x):
    pts = [0] + [e for e, _ in opts]
    for i in range(len(pts) - 1):
        if pts[i] <= x <= pts[i + 1]:
            return i
    return -1


# ------------------------------------------------------------------ history monitors
def deltas(pre, o):
    keys = set(pre["bal"]) | set(o["bal"])
    return {k: o["bal"].get(k, 0) - pre["bal"].get(k, 0) for k in keys if o["bal"].get(k, 0) != pre["bal"].get(k, 0)}


def expect(out, key, op, pre, o, want, dbs=0, dls=0, dfees=0):
    want = {k: v for k, v in want.items() if v != 0}
    got = deltas(pre, o)
    if got != want:
        out.append((key, f"{op}: balance changes {fmt(got)} but the property requires {fmt(want)}"))
    if o["bsupply"] - pre["bsupply"] != dbs:
        out.append((key + ":base-supply", f"{op}: base-asset supply changed by {o['bsupply'] - pre['bsupply']}, expected {dbs}"))
    if o["lsupply"] - pre["lsupply"] != dls:
        out.append((key + ":locked-supply", f"{op}: LOCKED supply changed by {o['lsupply'] - pre['lsupply']}, expected {dls}"))
    if o["fees"] - pre["fees"] != dfees:
        out.append(("split:collector", f"{op}: fees collector accumulated {o['fees'] - pre['fees']}, expected {dfees}"))


def fmt(d):
    return {f"{h}:{t}": v for (h, t), v in sorted(d.items())}


def add(d, k, v):
    d[k] = d.get(k, 0) + v


def monitor(cfg, op, o):
    out = []
    pre = o["pre"]
    k = op[0]
    now = pre["now"]
    opts = pre["opts"]
    burn = pre["burn"]
    if not o["ok"]:
        if o.get("unchanged") is False:
            out.append(("failed-tx-changed-state", f"{op} failed ({o['msg']}) but storage/balances changed"))
        if k == "Unlock" and not pre["paused"]:
            need = {}
            for e, a in op[2]:
                add(need, e, a)
            if all(e <= now and e > 0 for e in need) and all(a > 0 for _, a in op[2]) and \
                    all(pre["bal"].get((op[1], e), 0) >= a for e, a in need.items()):
                out.append(("unlock-refused-after-epoch", f"{op} at epoch {now} failed ({o['msg']}): tokens past their unlock epoch were not returned"))
        if k == "Claim":
            q = pre["q"].get(op[1], [])
            if q and q[0][0] <= now:
                out.append(("claim-refused-after-unbond", f"{op} at epoch {now} failed ({o['msg']}) although entry {q[0]} has passed its unbond period"))
    else:
        if k == "Lock":
            _, c, amt, le, dest = op
            e2 = sl.som(now + le)
            if o["outs"] != [e2, amt] or e2 <= now or [le] not in [[x[0]] for x in opts]:
                out.append(("lock-1to1", f"{op} at epoch {now}: returned {o['outs']}, expected LOCKED [{e2}, {amt}] for a listed option"))
            want = {}
            add(want, (c, 0), -amt)
            add(want, (dest, e2), amt)
            expect(out, "lock-1to1", op, pre, o, want, dbs=-amt, dls=amt)
        elif k == "Extend":
            _, c, e, amt, le = op
            e2 = sl.som(now + le)
            want = {}
            add(want, (c, e), -amt)
            add(want, (c, e2), amt)
            if o["outs"] != [e2, amt] or e2 <= e:
                out.append(("lock-1to1", f"{op} at epoch {now}: returned {o['outs']}, expected LOCKED [{e2}, {amt}] with a later unlock epoch"))
            expect(out, "lock-1to1", op, pre, o, want)
        elif k == "LockVirtual":
            _, c, amt, le, dest = op
            e2 = sl.som(now + le)
            if o["outs"] != [e2, amt]:
                out.append(("lock-1to1", f"{op}: returned {o['outs']}"))
            expect(out, "lock-1to1", op, pre, o, {(dest, e2): amt}, dls=amt)
        elif k == "Unlock":
            _, c, ps = op
            tot = sum(a for _, a in ps)
            early = [e for e, _ in ps if e > now]
            if early:
                out.append(("unlock-before-epoch", f"{op} succeeded at epoch {now}, before unlock epoch(s) {early}, without penalty"))
            if o["outs"] != [tot]:
                out.append(("unlock-1to1", f"{op}: returned {o['outs']}, expected [{tot}]"))
            want = {}
            add(want, (c, 0), tot)
            for e, a in ps:
                add(want, (c, e), -a)
            expect(out, "unlock-1to1", op, pre, o, want, dbs=tot, dls=-tot)
        elif k == "UnlockEarly":
            _, c, e, amt = op
            pen = penalty_doc(opts, amt, e - now, 0)
            q0, q1 = pre["q"].get(c, []), o["q"].get(c, [])
            if pen is None or pen >= amt:
                out.append(("penalty-exact", f"{op} at epoch {now} succeeded but the documented penalty is {pen} for amount {amt}"))
                return out
            if q1 != q0 + [[now + pre["unbond"], e, amt, amt - pen]]:
                out.append(("penalty-exact", f"{op} at epoch {now}: queue became {q1[len(q0):]} but the documented penalty {pen} "
                                             f"(options {opts}) requires entry {[now + pre['unbond'], e, amt, amt - pen]}"))
            if o["quote"] != pen:
                out.append(("penalty-quote", f"{op}: getPenaltyAmount quoted {o['quote']}, documented penalty {pen}"))
            # nothing reaches the user now: the remainder sits in the unstake contract
            want = {}
            add(want, (c, e), -amt)
            add(want, (UNSTAKE, e), amt)
            add(want, (UNSTAKE, 0), amt - pen)
            expect(out, "early-unlock-escrow", op, pre, o, want, dbs=amt - pen)
        elif k == "Reduce":
            _, c, e, amt, le = op
            e2 = sl.som(now + le)
            pen = penalty_doc(opts, amt, e - now, e2 - now)
            if pen is None or pen >= amt or e2 >= e:
                out.append(("penalty-exact", f"{op} at epoch {now} succeeded but the documented penalty is {pen} for amount {amt} (new epoch {e2})"))
                return out
            if o["outs"] != [e2, amt - pen]:
                out.append(("penalty-exact", f"{op} at epoch {now}: returned {o['outs']} but the documented penalty {pen} (options {opts}) "
                                             f"requires [{e2}, {amt - pen}]"))
            if o["quote"] != pen:
                out.append(("penalty-quote", f"{op}: getPenaltyAmount quoted {o['quote']}, documented penalty {pen}"))
            b = pen * burn // MAXP
            want = {}
            add(want, (c, e), -amt)
            add(want, (c, e2), amt - pen)
            expect(out, "reduce-balances", op, pre, o, want, dls=-pen, dfees=pen - b)
        elif k == "Claim":
            c = op[1]
            q0, q1 = pre["q"].get(c, []), o["q"].get(c, [])
            n = len(o["outs"])
            paid = q0[:n]
            if n == 0 or n > sl.MAXCLAIM or q1 != q0[n:]:
                out.append(("claim-once", f"{op}: paid {o['outs']}, queue went from {q0} to {q1}"))
                return out
            if any(en[0] > now for en in paid):
                out.append(("claim-before-unbond", f"{op} at epoch {now} paid entries {[en for en in paid if en[0] > now]} before their unbond period ended"))
            if o["outs"] != [en[3] for en in paid]:
                out.append(("claim-amount", f"{op}: paid {o['outs']}, entries were {paid}"))
            if n < sl.MAXCLAIM and len(q0) > n and q0[n][0] <= now:
                out.append(("claim-refused-after-unbond", f"{op} at epoch {now} left entry {q0[n]} unpaid"))
            want = {}
            fees = 0
            lk = 0
            for rel, e, a, u in paid:
                add(want, (c, 0), u)
                add(want, (UNSTAKE, 0), -u)
                add(want, (UNSTAKE, e), -a)
                fees += (a - u) - (a - u) * burn // MAXP
                lk += a
            expect(out, "claim-balances", op, pre, o, want, dls=-lk, dfees=fees)
        elif k == "Cancel":
            c = op[1]
            q0, q1 = pre["q"].get(c, []), o["q"].get(c, [])
            if q1 != [] or o["outs"] != [x for en in q0 for x in (en[1], en[2])]:
                out.append(("cancel-returns-locked", f"{op}: returned {o['outs']}, queue went from {q0} to {q1}"))
            want = {}
            un = 0
            for rel, e, a, u in q0:
                add(want, (c, e), a)
                add(want, (UNSTAKE, e), -a)
                add(want, (UNSTAKE, 0), -u)
                un += u
            expect(out, "cancel-balances", op, pre, o, want, dbs=-un)
        else:
            expect(out, "admin-moves-tokens", op, pre, o, {})
    # escrow: what the unstake contract holds is exactly what the queues record
    esc = {}
    for u, ents in o["q"].items():
        for rel, e, a, un in ents:
            add(esc, (UNSTAKE, 0), un)
            add(esc, (UNSTAKE, e), a)
            if not (0 < un <= a):
                out.append(("escrow-entry", f"after {op}: entry {[rel, e, a, un]} of user {u} releases more than was locked, or nothing"))
    real = {k_: v for k_, v in o["bal"].items() if k_[0] == UNSTAKE and v != 0}
    if real != {k_: v for k_, v in esc.items() if v != 0}:
        out.append(("escrow-backing", f"after {op}: unstake contract holds {fmt(real)}, queues record {fmt(esc)}"))
    # base asset can re-appear only out of what lock paths burned, plus emission
    if o["bsupply"] > cfg_supply0() + o["emitted"]:
        out.append(("supply-ledger", f"after {op}: base-asset supply {o['bsupply']} exceeds initial {cfg_supply0()} + emitted {o['emitted']}"))
    return out


def cfg_supply0():
    return sl.NUSERS * sl.FUND


def mag(a):
    return min(8, len(str(a)) // 3)


def nontrivial(cfg, op, o):
    if not o["ok"]:
        return None
    pre = o["pre"]
    k = op[0]
    now = pre["now"]
    opts = pre["opts"]
    burn = pre["burn"]
    bcls = 0 if burn == 0 else 2 if burn == MAXP else 1
    if k == "UnlockEarly":
        _, c, e, amt = op
        x = e - now
        pts = [(0, 0)] + [tuple(t) for t in opts]
        i = seg_index(opts, x)
        num = pts[i][1] * (pts[i + 1][0] - x) + pts[i + 1][1] * (x - pts[i][0])
        p = pct_full_doc(opts, x)
        inexact = (num % (pts[i + 1][0] - pts[i][0]) != 0, amt * p % MAXP != 0)
        pen = amt * p // MAXP
        if pen == 0 and not any(inexact):
            return None
        return ("early", i, mag(amt), inexact, pen == 0, min(pre["unbond"], 2), x in [t[0] for t in opts])
    if k == "Reduce":
        _, c, e, amt, le = op
        e2 = sl.som(now + le)
        p = pct_doc(opts, e - now, e2 - now)
        pen = amt * p // MAXP
        inexact = (amt * p % MAXP != 0, pen * burn % MAXP != 0)
        if pen == 0 and not any(inexact):
            return None
        return ("reduce", seg_index(opts, e - now), [t[0] for t in opts].index(le), mag(amt), inexact, pen == 0, bcls)
    if k == "Claim":
        q0 = pre["q"].get(op[1], [])
        n = len(o["outs"])
        paid = q0[:n]
        pens = [a - u for _, _, a, u in paid]
        off = min(2, now - paid[-1][0])
        inexact = any(p_ * burn % MAXP != 0 for p_ in pens)
        if not any(pens) and off > 1 and n == 1:
            return None
        return ("claim", min(n, 3), off, inexact, bcls, len(q0) > n, min(pre["unbond"], 2), mag(sum(pens)))
    if k == "Cancel":
        q0 = pre["q"].get(op[1], [])
        return ("cancel", min(len(q0), 3), any(en[0] <= now for en in q0), any(en[1] <= now for en in q0), pre["paused"])
    if k == "Unlock":
        offs = tuple(sorted(set(min(2, now - e) for e, _ in op[2])))
        if offs == (2,) and len(op[2]) == 1:
            return None
        return ("unlock", offs, len(op[2]), mag(sum(a for _, a in op[2])))
    if k == "Lock":
        _, c, amt, le, dest = op
        off = (now + le) % 30
        if amt > 20 and off not in (0, 1, 29) and dest == c:
            return None
        return ("lock", mag(amt), off in (0, 1, 29), dest == c, [t[0] for t in opts].index(le) if len(opts) < 5 else 0)
    if k == "Extend":
        return ("extend", op[2] <= now, mag(op[3]))
    return None


# ------------------------------------------------------------------ sweep monitors
def sweep_monitor(sw):
    """the property's own predicates on the REAL view results of one option set"""
    out = []
    opts, news, rows = sw["opts"], sw["news"], sw["rows"]
    e_last, p_last = opts[-1]
    full = {}          # prev -> observed percentage for a full unlock (amount 10000, new 0)
    col0 = news.index(0)
    for prev, a, vals in rows:
        if a == MAXP:
            full[prev] = vals[col0]
    for prev, a, vals in rows:
        for nw, v in zip(news, vals):
            want = penalty_doc(opts, a, prev, nw)
            want = -1 if want is None else want
            if v != want:
                out.append(("view-formula", f"options {opts}: getPenaltyAmount({a}, {prev}, {nw}) = {v}, documented formula gives {want}"))
                if len(out) > 5:
                    return out
            if v >= 0 and a > 0 and v > a:
                out.append(("view-above-amount", f"options {opts}: getPenaltyAmount({a}, {prev}, {nw}) = {v} exceeds the amount"))
            if a == MAXP and v > MAXP:
                out.append(("view-above-100pct", f"options {opts}: percentage {v} for ({prev}, {nw})"))
            if a == MAXP and nw > 0 and v >= 0 and full.get(prev, -1) >= 0 and full.get(nw, -1) >= 0:
                po, pn = full[prev], full[nw]
                if pn >= MAXP or pn > po or v != (po - pn) * MAXP // (MAXP - pn):
                    out.append(("view-partial", f"options {opts}: reduction ({prev} -> {nw}) charged {v} with full percentages {po}, {pn}"))
    for prev in range(1, e_last + 1):
        v = full.get(prev, -1)
        if v < 0:
            out.append(("view-refuses-valid", f"options {opts}: getPenaltyAmount(10000, {prev}, 0) failed"))
            continue
        if v > p_last:
            out.append(("view-above-largest-option", f"options {opts}: percentage {v} at remaining {prev} exceeds the largest option {p_last}"))
        if prev > 1 and full.get(prev - 1, -1) > v:
            out.append(("view-not-monotone", f"options {opts}: percentage falls from {full[prev - 1]} to {v} between remaining {prev - 1} and {prev}"))
    for e, p in opts:
        if full.get(e) != p:
            out.append(("view-misses-option", f"options {opts}: percentage at remaining {e} is {full.get(e)}, configured {p}"))
    return out[:8]


def sweep_nontrivial(sw):
    keys = set()
    opts, news = sw["opts"], sw["news"]
    pts = [(0, 0)] + [tuple(t) for t in opts]
    tag = tuple(tuple(t) for t in opts)
    for prev, a, vals in sw["rows"]:
        i = seg_index(opts, prev)
        if i < 0 or prev == 0:
            continue
        num = pts[i][1] * (pts[i + 1][0] - prev) + pts[i + 1][1] * (prev - pts[i][0])
        ix = num % (pts[i + 1][0] - pts[i][0]) != 0
        for j, (nw, v) in enumerate(zip(news, vals)):
            if v < 0:
                continue
            p = pct_doc(opts, prev, nw)
            if ix or (a * p) % MAXP != 0:
                keys.add(("sweep", tag, i, j, ix, (a * p) % MAXP != 0, a == MAXP))
    return keys


# ------------------------------------------------------------------ exploration
def _gen(args):
    seed, nops = args
    cfg, trace = sl.gen_history(seed, nops)
    return seed, cfg, trace


def _sweep(seed):
    return sl.run_sweep(seed)


def budgets(tier):
    # histories, ops per history, option sets swept
    return (48, 40, 8) if tier == "quick" else (1600, 60, 96)


def strip(o):
    return {k: (fmt(v) if k == "bal" else v) for k, v in o.items() if k != "pre"}


def explore(tier, seed, model_ok=True, focus=False):
    ex = Exploration()
    ex.rule = RULE
    nh, nops, nsw = budgets(tier)
    seeds = [seed * 100000 + i for i in range(nh)]
    sweep_seeds = [seed * 100000 + 50000 + i for i in range(nsw)]
    hist, sweeps = [], []
    with concurrent.futures.ProcessPoolExecutor(max_workers=16) as pool:
        fs = [pool.submit(_sweep, s) for s in sweep_seeds]
        for sd, cfg, trace in pool.map(_gen, [(s, nops) for s in seeds], chunksize=2):
            hist.append((sd, cfg, trace))
        sweeps = [f.result() for f in fs]
    terms, owners = [], []
    for sd, cfg, trace in hist:
        ex.histories += 1
        ex.evaluations += len(trace)
        for i, (op, o) in enumerate(trace):
            ex.count(op[0] + (":ok" if o["ok"] else ":err"))
            ex.count("ops:ok" if o["ok"] else "ops:err")
            if not o["ok"]:
                ex.count("err:" + o["msg"][:40])
            k = nontrivial(cfg, op, o)
            if k is not None:
                ex.nontrivial.add(k)
            for key, what in monitor(cfg, op, o):
                ex.failures.append(dict(key=key, what=what, replay=dict(kind="history", cfg=cfg, ops=[t[0] for t in trace[:i + 1]],
                                                                         seed=sd, observed=strip(o))))
        terms.append(sl.coq_history(cfg, trace))
        owners.append(("history", sd, cfg, trace))
        if len(ex.samples) < 3:
            ex.samples.append(dict(seed=sd, cfg=cfg, ops=[[op, "ok" if o["ok"] else o["msg"], o["outs"]] for op, o in trace[:14]]))
    for sw in sweeps:
        if sw.get("rejected"):
            rj = sw["rejected"]
            ex.failures.append(dict(key="valid-lock-options-rejected", what=f"{rj['step']} refused the well-formed option set {sw['opts']} handed over as {rj['order']}: {rj['msg']}",
                                    replay=dict(kind="sweep", opts=sw["opts"], seed=sw["seed"])))
            continue
        n = sum(len(v) for _, _, v in sw["rows"])
        ex.evaluations += n
        ex.count("sweep:option_sets")
        ex.count("sweep:view_queries", n)
        ex.count("sweep:exhaustive_cells(remaining x new, amount 10000)", (sw["opts"][-1][0] + 3) * len(sw["news"]))
        ex.count("sweep:view_ok", sum(1 for _, _, v in sw["rows"] for x in v if x >= 0))
        ex.nontrivial |= sweep_nontrivial(sw)
        for key, what in sweep_monitor(sw):
            ex.failures.append(dict(key=key, what=what, replay=dict(kind="sweep", opts=sw["opts"], seed=sw["seed"])))
        for t in sl.coq_sweep_terms(sw):
            terms.append(t)
            owners.append(("sweep", sw["seed"], sw["opts"], None))
        if len(ex.samples) < 5:
            ex.samples.append(dict(sweep_seed=sw["seed"], opts=sw["opts"], news=sw["news"], first_rows=sw["rows"][355:362]))
    ex.counters["sweep:exhaustive_per_option_set"] = 1
    ex.notes.append("view sweep is exhaustive per sampled option set over (remaining epochs 0..e_last+2) x (new in {0} + options) at amount 10000")
    if model_ok:
        # sweep chunks cost ~10x a history: spread them over the coqc shards (fixed permutation)
        order = list(range(len(terms)))
        random.Random(0).shuffle(order)
        shuffled = coqrun.eval_terms(IMPORTS, [terms[i] for i in order], tag="C09", per_file=max(1, len(terms) // 256))
        res = [None] * len(terms)
        for i, r in zip(order, shuffled):
            res[i] = r
        ex.traces_validated = len(res)
        for (kind, sd, cfg, trace), r in zip(owners, res):
            if not r:
                continue
            if kind == "history":
                i = r[0]
                ex.disagreements.append(dict(where="Run.EnergyRun.check_trace", seed=sd, cfg=cfg, index=i, field=r[1], model=r[2], impl=r[3],
                                             op=trace[i][0], observed=strip(trace[i][1]), ops=[t[0] for t in trace]))
            else:
                ex.disagreements.append(dict(where="Run.EnergyRun.sweep (getPenaltyAmount)", seed=sd, opts=cfg, remaining=r[0], new=r[1],
                                             model=r[2], impl=r[3]))
    return ex


def replay(data):
    rp = data["replay"]
    fails = []
    if rp.get("kind") == "sweep":
        sw = sl.run_sweep(rp["seed"], opts=rp["opts"])
        if sw.get("rejected"):
            return [dict(key="valid-lock-options-rejected", what=str(sw["rejected"]))]
        for key, what in sweep_monitor(sw):
            fails.append(dict(key=key, what=what))
        return fails
    trace = sl.replay_history(rp["cfg"], rp["ops"])
    for op, o in trace:
        for key, what in monitor(rp["cfg"], op, o):
            fails.append(dict(key=key, what=what))
    return fails
