"""C15 — dual-yield (metastaking) tokens are fully backed and unwind to their parts.

Monitors evaluate the property's own clauses on the REAL composed system (pair + LP farm + staking
farm + farm-staking-proxy, tools/sys_metastaking.py): real balances of the proxy, real attributes of
every dual-yield nonce, real returned payments and balance changes, the pair's real safe-price view
at the same block.  The interface laws L1-L6 the theorems are relative to are monitors of their own
(keys law-L*), evaluated on every real answer."""
import json, concurrent.futures
import sys_metastaking as sm
import coqrun
from framework import Exploration
from sys_metastaking import TK_LP, TK_STK, TK_OTH, TK_REW, TK_LPF, TK_SF, TK_DY, NUSERS, part_of

ASSUMPTIONS = ["A-VM", "A-U64",
               "A-ENV: the 19 theorems of Props/C15.v are relative to the interface laws L0-L7 of the LP farm / staking farm / pair; "
               "every law is evaluated on every real answer in this run AND proved on the callee model (L1-L3 farm, L3-L5 staking, L6 pair, "
               "L7 safe price); Props/C15_closed.v composes proxy and callee models so that no law is assumed (inputs left: the pair's "
               "safe-price answer, the boosted payouts of the farm models, block/epoch); law L7 (registered value = the documented time-weighted average) is evaluated on every registered value against an INDEPENDENT ledger of start-of-round reserves (Run/MetaTwapRun.check_twap, Props/C15_twap.v), not against the pair's own answer",
               "A-V0: stakeFarmTokens whose safe-price value is 0 with merged dual-yield tokens is not executed in the closed exploration "
               "(Model/StakingPos.v requires amt > 0 for the virtual stake; the real contract accepts it)",
               "A-NFT0: operations that would create a position / dual-yield token of quantity 0 (safe price of the position = 0) "
               "are not executed: the protocol's ESDTNFTCreate rejects quantity 0 (the model says Err), the debug VM's mock accepts it"]
IMPORTS = "Base.Prelude Gen.Params Model.MetaStaking Run.MetaStakingRun"
RULE = ("random composed histories: 3 users with several LP-farm positions each stake (full / partial / tiny amounts, with 0-4 "
        "existing dual-yield tokens merged in, partial or whole, the same nonce twice), claim and unstake partially / fully "
        "(minimum amounts either side of the pair's quote), transfer dual-yield tokens between users, while a trader moves the "
        "pool price both ways by up to the whole reserve and block nonce / round / epoch advance by 1..5000 (safe-price window, "
        "reward blocks, weeks, early-exit penalty epochs); plus malformed calls (wrong / missing / extra payments, foreign "
        "original caller, overspending, unknown nonce). staking token first or second in the pair, boosted yields on/off. "
        "non-trivial = successful stake/claim/unstake; distinct by (endpoint, merged tokens, partial/whole, floor inexact, "
        "safe price != spot price, penalty, rewards paid, LP-farm nonce shared by several dual-yield nonces, magnitude class)")


def budgets(tier):
    return (48, 40) if tier == "quick" else (1600, 60)


def strip(o):
    return {k: v for k, v in o.items() if k not in ("pre",)}


def stk_side(sp):
    return sm.MetaWorld.stk_side(sp) if sp else None


def safe_monitor(cfg, op, o):
    """a monitor that cannot evaluate its predicate (an observation the conforming code never produces,
    e.g. a claim that succeeded without a safe-price answer) reports that as a failure instead of crashing"""
    try:
        return monitor(cfg, op, o)
    except Exception as e:  # noqa
        import traceback
        return [(f"monitor-cannot-evaluate:{op[0]}", f"{op}: {type(e).__name__}: {e} | " + traceback.format_exc().splitlines()[-3].strip())]


def claims(o):
    """per farm-token nonce: what the outstanding dual-yield tokens record"""
    sf, lp_need, lp_left = {}, {}, {}
    for n, (lpn, L, sfn, T) in o["attrs"].items():
        s = o["sup"].get(n, 0)
        sf[sfn] = sf.get(sfn, 0) + s
        need = L if s == T else (L * s // T if T else 0)
        lp_need[lpn] = lp_need.get(lpn, 0) + need
        rel = o["released"].get(n, [0, 0])[0]
        lp_left[lpn] = lp_left.get(lpn, 0) + L - rel
    return sf, lp_need, lp_left


def kd(d):
    return {str(k): v for k, v in d.items()}


def monitor(cfg, op, o):
    out = []
    k = op[0]
    # ---- the proxy's balances, after every transaction (successful or not)
    if any(o["fung"].values()) or o["proxy_dy"]:
        out.append(("proxy-keeps-funds", f"{op}: the proxy holds tokens other than recorded farm tokens: {o['fung']} dual-yield {o['proxy_dy']}"))
    sf, lp_need, lp_left = claims(o)
    for n, bal in o["sf"].items():
        if bal != sf.get(n, 0):
            out.append(("backed-staking-farm-token", f"{op}: proxy holds {bal} of staking-farm nonce {n}, outstanding dual-yield tokens record {sf.get(n, 0)}"))
    for n in sf:
        if sf[n] and n not in o["sf"]:
            out.append(("backed-staking-farm-token", f"{op}: staking-farm nonce {n} recorded ({sf[n]}) but never held by the proxy"))
    for n, bal in o["lpf"].items():
        if bal < lp_need.get(n, 0):
            out.append(("backed-lp-farm-token", f"{op}: proxy holds {bal} of LP-farm nonce {n}, outstanding dual-yield tokens can redeem {lp_need.get(n, 0)}"))
        if bal != lp_left.get(n, 0):
            out.append(("lp-farm-balance-unaccounted", f"{op}: proxy holds {bal} of LP-farm nonce {n}; recorded minus released is {lp_left.get(n, 0)}"))
    for n in lp_need:
        if lp_need[n] and n not in o["lpf"]:
            out.append(("backed-lp-farm-token", f"{op}: LP-farm nonce {n} recorded but never held by the proxy"))
    for n, (lpn, L, sfn, T) in o["attrs"].items():
        rel = o["released"].get(n, [0, 0])
        if rel[0] > L or rel[1] > T:
            out.append(("parts-exceed-whole", f"{op}: nonce {n} records ({L}, {T}) but ({rel[0]}, {rel[1]}) were released over its life"))
    pre = o["pre"]
    if not o["ok"]:
        for f in ("lpf", "sf", "hold", "attrs"):
            if kd({x: y for x, y in o[f].items() if y}) != kd({x: y for x, y in pre[f].items() if y}):
                out.append(("failed-tx-changed-state", f"{op} failed but {f} changed"))
        return out
    if k == "Xfer":
        return out
    m = o["meas"]
    u = op[1]
    pays = [tuple(p) for p in op[2]]
    ret = m["ret"]
    du = dict(m["duser"])
    dp = dict(m["dproxy"])
    rel = m.get("release") or dict(expected={}, real={})
    # ---- every redeemed dual-yield payment releases exactly its recorded part (floor rule), nothing else leaves
    if rel["expected"] != rel["real"]:
        out.append(("partial-exit-not-floor-part", f"{op}: farm tokens that left the proxy {rel['real']}, proportional (floor) parts {rel['expected']}"))
    new_attr = None
    if k in ("Stake", "Claim"):
        nn = o["outs"][0] if k == "Stake" else o["outs"][2]
        amt = o["outs"][1] if k == "Stake" else o["outs"][3]
        new_attr = o["attrs"].get(nn)
        if new_attr is None or nn in pre["attrs"]:
            out.append(("new-dual-yield-nonce", f"{op}: returned nonce {nn} is not a new dual-yield token"))
            return out
        if amt != new_attr[3]:
            out.append(("dual-yield-amount-vs-recorded", f"{op}: {amt} dual-yield units issued, attributes record staking-farm amount {new_attr[3]}"))
        if o["lpf"].get(new_attr[0], 0) < new_attr[1] or o["sf"].get(new_attr[2], 0) < new_attr[3]:
            out.append(("recorded-tokens-not-held", f"{op}: new attributes {new_attr}, proxy holds {o['lpf'].get(new_attr[0], 0)} / {o['sf'].get(new_attr[2], 0)}"))
    if k == "Stake":
        (t0, k0, a0), adds = pays[0], pays[1:]
        parts = [part_of(pre["attrs"][n], x) for (_, n, x) in adds]
        v = stk_side(m["safe"])
        if m["dreg"] != v:
            out.append(("staked-value-not-safe-price", f"{op}: staking farm registered {m['dreg']}, safe price of {a0} LP is {m['safe']} (spot {m['spot']})"))
        if m["safe"] and not ({m["safe"][0], m["safe"][2]} == {TK_STK, TK_OTH}):
            out.append(("law-L6", f"{op}: pair answered tokens {m['safe']}"))
        if new_attr[3] != v + sum(x for (_, _, x) in adds):
            out.append(("law-L3", f"{op}: staking farm returned {new_attr[3]} for value {v} + merged {[x for (_, _, x) in adds]}"))
        if not adds:
            if (new_attr[0], new_attr[1]) != (k0, a0):
                out.append(("recorded-lp-farm-token", f"{op}: attributes record LP-farm {new_attr[:2]}, paid in ({k0}, {a0})"))
        elif new_attr[1] != a0 + sum(p[1] for p in parts):
            out.append(("law-L2", f"{op}: merged LP-farm token {new_attr[1]}, sum of parts {a0} + {[p[1] for p in parts]}"))
        exp = {f"{TK_LPF}:{k0}": -a0, f"{TK_DY}:{o['outs'][0]}": o["outs"][1]}
        for (_, n, x) in adds:
            exp[f"{TK_DY}:{n}"] = exp.get(f"{TK_DY}:{n}", 0) - x
        if o["outs"][2]:
            exp[f"{TK_STK}:0"] = o["outs"][2]
        if o["outs"][3]:
            exp[f"{TK_REW}:0"] = o["outs"][3]
        if du != exp:
            out.append(("caller-balance-delta", f"{op}: caller's balances moved by {du}, expected {exp}"))
    elif k == "Claim":
        (_, n, p) = pays[0]
        part = part_of(pre["attrs"][n], p)
        v = stk_side(m["safe"])
        if m["dreg"] != v - p:
            out.append(("claim-value-not-safe-price", f"{op}: staking farm supply moved by {m['dreg']}, safe price of {part[1]} LP is {m['safe']} (spot {m['spot']}), old value {p}"))
        if new_attr[3] != v:
            out.append(("law-L4", f"{op}: staking farm returned {new_attr[3]} for new value {v}"))
        if new_attr[1] != part[1]:
            out.append(("law-L1", f"{op}: LP farm returned {new_attr[1]} for a claim with {part[1]}"))
        exp = {f"{TK_DY}:{n}": -p, f"{TK_DY}:{o['outs'][2]}": o["outs"][3]}
        if o["outs"][0]:
            exp[f"{TK_REW}:0"] = o["outs"][0]
        if o["outs"][1]:
            exp[f"{TK_STK}:0"] = o["outs"][1]
        if du != exp:
            out.append(("caller-balance-delta", f"{op}: caller's balances moved by {du}, expected {exp}"))
    elif k == "Unstake":
        (_, n, p) = pays[0]
        part = part_of(pre["attrs"][n], p)
        if len(ret) != 4:
            out.append(("unstake-results", f"{op}: returned {ret}"))
            return out
        got_stk, got_oth = -m["dpair_stk"], -m["dpair_oth"]
        if ret[0][0] != TK_OTH or ret[0][2] != got_oth:
            out.append(("unstake-other-token", f"{op}: returned {ret[0]}, the pair gave {got_oth} of the other pool token"))
        if ret[1][0] not in (TK_REW, sm.TK_X) and ret[1][2]:
            out.append(("unstake-lp-rewards-token", f"{op}: LP-farm rewards returned as {ret[1]}"))
        if ret[2][0] != TK_STK:
            out.append(("unstake-staking-rewards-token", f"{op}: staking rewards returned as {ret[2]}"))
        if ret[3][0] != TK_SF or ret[3][2] != got_stk:
            out.append(("unbond-amount", f"{op}: unbond token {ret[3]}, staking tokens obtained from the removed liquidity {got_stk}"))
        if ret[3][1] in pre["sf"] and pre["sf"][ret[3][1]]:
            out.append(("unbond-token-nonce", f"{op}: unbond token uses nonce {ret[3][1]} of a position the proxy holds"))
        exp = {f"{TK_DY}:{n}": -p}
        for (c, nn, x) in ret:
            if x:
                key = f"{c}:{nn if c == TK_SF else 0}"
                exp[key] = exp.get(key, 0) + x
        if du != exp:
            out.append(("unstake-caller-delta", f"{op}: caller's balances moved by {du}, returned payments {ret}"))
        expp = {key: -v for key, v in rel["expected"].items()}
        if dp != expp:
            out.append(("proxy-ledger-delta", f"{op}: proxy balances moved by {dp}, expected only the released parts {expp}"))
        if m["dreg"] != -p:
            out.append(("unstake-registered-value", f"{op}: staking farm supply moved by {m['dreg']}, redeemed {p}"))
        if o["sup"].get(n, 0) != pre["sup"].get(n, 0) - p:
            out.append(("dual-yield-not-burned", f"{op}: supply of nonce {n} went {pre['sup'].get(n, 0)} -> {o['sup'].get(n, 0)}"))
    return out


def mag(x):
    return min(9, len(str(max(0, x))) // 3)


def nontrivial(cfg, op, o):
    if not o["ok"] or op[0] not in ("Stake", "Claim", "Unstake"):
        return None
    m, pre = o["meas"], o["pre"]
    pays = [tuple(p) for p in op[2]]
    dyp = [(n, x) for (t, n, x) in pays if t == TK_DY]
    inexact = any((pre["attrs"][n][1] * x) % pre["attrs"][n][3] != 0 for (n, x) in dyp if x != pre["attrs"][n][3])
    whole = any(x == pre["attrs"][n][3] for (n, x) in dyp)
    lpns = [pre["attrs"][n][0] for (n, _) in dyp]
    shared = any(sum(1 for a in pre["attrs"].values() if a[0] == l) > 1 for l in lpns)
    if op[0] == "Stake":
        return ("Stake", len(dyp), inexact, whole, m["safe"] != m["spot"], o["outs"][2] > 0, o["outs"][3] > 0, shared,
                cfg["stk_first"], mag(pays[0][2]))
    if op[0] == "Claim":
        return ("Claim", inexact, whole, m["safe"] != m["spot"], o["outs"][3] != pays[0][2], o["outs"][0] > 0, o["outs"][1] > 0,
                shared, cfg["stk_first"], mag(pays[0][2]))
    return ("Unstake", inexact, whole, m.get("lp_out") != (m["part"][1] if m["part"] else None), o["outs"][1] > 0, o["outs"][2] > 0,
            shared, op[3] > 1 or op[4] > 1, cfg["stk_first"], mag(pays[0][2]))


def _gen(args):
    seed, nops = args
    cfg, trace = sm.gen_history(seed, nops)
    return seed, cfg, trace


def explore(tier, seed, model_ok=True, focus=False):
    ex = Exploration()
    ex.rule = RULE
    nh, nops = budgets(tier)
    seeds = [seed * 100000 + i for i in range(nh)]
    hist = []
    with concurrent.futures.ProcessPoolExecutor(max_workers=16) as pool:
        for sd, cfg, trace in pool.map(_gen, [(s, nops) for s in seeds], chunksize=2):
            hist.append((sd, cfg, trace))
    terms = []
    for sd, cfg, trace in hist:
        tr = [(op, o) for op, o in trace if o is not None]
        ex.histories += 1
        ex.evaluations += len(tr)
        ex.count("env-ops", len(trace) - len(tr))
        for idx, (op, o) in enumerate(trace):
            if o is None:
                continue
            ex.count(op[0] + (":ok" if o["ok"] else ":err"))
            if not o["ok"]:
                ex.count("err:" + o["msg"][:40] + (" [callee rejects, predicted from views]" if o["env"] and o["env"]["fail"] else ""))
            elif o.get("meas"):
                if o["meas"].get("safe") and o["meas"]["safe"] != o["meas"].get("spot"):
                    ex.count("safe-price != spot-price")
                if any(p[0] == TK_DY for p in op[2]) and op[0] == "Stake":
                    ex.count("Stake with merged dual-yield tokens")
            kk = nontrivial(cfg, op, o)
            if kk is not None:
                ex.nontrivial.add(kk)
            for key, what in safe_monitor(cfg, op, o):
                ex.failures.append(dict(key=key, what=what, replay=dict(cfg=cfg, ops=[t[0] for t in trace[:idx + 1]], seed=sd,
                                                                          observed=strip(o))))
        terms.append(sm.coq_history(cfg, tr))
        if len(ex.samples) < 3:
            ex.samples.append(dict(seed=sd, cfg=cfg, ops=[[op, "ok" if o["ok"] else o["msg"], o["outs"]] for op, o in tr[:12]]))
    ex.notes.append("operations whose safe-price value is 0 are generated but not executed (ESDTNFTCreate of quantity 0: "
                    "protocol rejects, debug VM accepts); they appear as env-ops")
    if model_ok:
        res = coqrun.eval_terms(IMPORTS, terms, tag="C15", per_file=max(1, min(25, len(terms) // 16 + 1)))
        ex.traces_validated = len(res)
        for (sd, cfg, trace), r in zip(hist, res):
            if r:
                tr = [(op, o) for op, o in trace if o is not None]
                i = r[0]
                ex.disagreements.append(dict(where="Run.MetaStakingRun.check_trace", seed=sd, cfg=cfg, index=i, field=r[1],
                                             model=r[2], impl=r[3], op=tr[i][0], observed=strip(tr[i][1]),
                                             ops=[t[0] for t in trace]))
    # closed composition (callee answers computed by the callee models) and the on-behalf endpoints with a real hub
    from props import meta_closed_common as mcc
    ex = mcc.merge(ex, mcc.explore_meta_closed("C15", tier, seed, model_ok, focus))
    # independent safe-price reference: own ledger of start-of-round reserves + documented average (C13 oracle), law L7 checked in Coq
    from props import c15_twap_common as tcc
    return tcc.merge(ex, tcc.explore_twap("C15", tier, seed, model_ok, focus))


def replay(data):
    if data.get("replay", {}).get("system") == "meta_twap":
        from props import c15_twap_common as tcc
        return tcc.replay_twap(data)
    if data.get("replay", {}).get("system") == "meta_closed":
        from props import meta_closed_common as mcc
        return mcc.replay_meta_closed(data)
    rp = data["replay"]
    trace = sm.replay_history(rp["cfg"], rp["ops"])
    fails = []
    for op, o in trace:
        if o is None:
            continue
        for key, what in safe_monitor(rp["cfg"], op, o):
            fails.append(dict(key=key, what=what))
    return fails
