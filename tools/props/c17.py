"""C17 — Price discovery: phase rules, penalty schedule, pro-rata redemption, price floor."""
import concurrent.futures
import sys_pricediscovery as sp
import coqrun
from framework import Exploration

ASSUMPTIONS = ["A-VM", "A-U64",
               "no plain ESDT transfer into the price-discovery account outside its endpoints (the contract is "
               "not payable; the debug VM would accept one) - otherwise real holdings exceed the tracked balances"]
IMPORTS = "Base.Prelude Gen.Params Model.PriceDiscovery Run.PriceDiscoveryRun"
MAXP = sp.MAXP

# Launched-token deposits: with accepted tokens present the resulting price must be >= the minimum (a price
# that ROUNDS TO ZERO included: that was the escape repaired by /repo 398b115); only while the accepted
# balance is 0 (bootstrap, price 0 by definition) may a launched deposit leave price < minimum.

RULE = ("histories of ~40 operations on the real price-discovery + simple-lock contracts from a random accepted (or, "
        "in ~8%, rejected) deployment: decimals 0..18, durations 0..4 per phase (0 and 1 over-represented), penalty "
        "ranges incl. 0, min=max, MAX-1, min price 0 / around the expected price; block advances of 0/1/2 so every "
        "phase boundary is observed at -1/0/+1; deposits and withdrawals of both tokens by 4 accounts (log-uniform "
        "amounts, amounts at the price-floor edge +-1, amounts where the penalty floor is inexact), transfers of "
        "redeem tokens, redemptions in random order and split sizes, ~10% malformed / out-of-phase / over-balance "
        "calls. Non-trivial = (a) successful withdrawal with penalty>0, (b) successful redemption, (c) deposit or "
        "withdrawal accepted or rejected with a positive minimum price in force, (d) a block advance that changes "
        "the phase, (e) an out-of-phase rejection; distinct by kind, phase, token/nonce, inexact-floor flag, "
        "locked/unlocked payout, decimals and magnitude classes")

# minimised regressions replayed before the random histories
CORPUS = [
    dict(name="nonvacuous-example",     # = c17_example_ops of coq/Props/C17.v
         cfg=dict(cur=1, dec=6, minp=0, start=2, dn=2, dl=3, df=2, pmin=10 ** 12, pmax=5 * 10 ** 12,
                  pfix=25 * 10 ** 11, unlock_epoch=3, scale_l=10 ** 6, scale_a=10 ** 3, nops=14),
         ops=[["Tick", 1, 0], ["Deposit", 100, 1, 1000000], ["Deposit", 1, 2, 300], ["Deposit", 2, 2, 700],
              ["Tick", 3, 0], ["Withdraw", 1, 2, 100], ["Tick", 2, 0], ["Withdraw", 2, 2, 101], ["Tick", 2, 1],
              ["Redeem", 1, 2, 200], ["Redeem", 100, 1, 1000000], ["Xfer", 2, 3, 2, 99], ["Tick", 0, 5],
              ["Redeem", 2, 2, 500], ["Redeem", 3, 2, 99]]),
    dict(name="zero-price-escape",      # = wit_ops of coq/Proofs/PriceDiscoveryProofs.v + the escaping deposit
         cfg=dict(cur=1, dec=0, minp=5, start=2, dn=5, dl=5, df=5, pmin=0, pmax=0, pfix=0, unlock_epoch=3,
                  scale_l=10, scale_a=100, nops=5),
         ops=[["Tick", 1, 0], ["Deposit", 1, 1, 10], ["Deposit", 1, 2, 100], ["Deposit", 2, 1, 40],
              ["Deposit", 2, 1, 1000]],
         # bootstrap deposit accepted at price 0; 40 (price 2 < 5) and 1000 (price rounds to 0 < 5) rejected
         expect_ok=[True, True, True, False, False]),
]


def doc_phase(cfg, b):
    """the documented schedule: (phase index, penalty percentage in force)"""
    s, dn, dl, df = cfg["start"], cfg["dn"], cfg["dl"], cfg["df"]
    if b < s:
        return 0, 0
    if b < s + dn:
        return 1, 0
    if b < s + dn + dl:
        passed = b - (s + dn)
        inc = (cfg["pmax"] - cfg["pmin"]) * passed // (dl - 1) if dl > 1 else 0
        return 2, cfg["pmin"] + inc
    if b < s + dn + dl + df:
        return 3, cfg["pfix"]
    return 4, 0


def side(o, n):
    """(tracked, real, supply, holdings) of the side of token/nonce n"""
    return (o["lb"], o["rl"], o["s1"], o["h1"]) if n == 1 else (o["ab"], o["ra"], o["s2"], o["h2"])


def monitor(cfg, op, o):
    out = []
    pre = o["pre"]
    k = op[0]
    prec = 10 ** cfg["dec"]
    # ---- phase function, monotonicity
    ph, pct = doc_phase(cfg, o["block"])
    if (o["phase"], o["pct"]) != (ph, pct):
        out.append(("phase:function", f"block {o['block']}: getCurrentPhase = ({o['phase']}, {o['pct']}), documented "
                                      f"schedule gives ({ph}, {pct})"))
    if o["phase"] == 2 and not (cfg["pmin"] <= o["pct"] <= cfg["pmax"]):
        out.append(("penalty:range", f"linear penalty {o['pct']} outside [{cfg['pmin']}, {cfg['pmax']}]"))
    if o["block"] >= pre["block"] and o["phase"] < pre["phase"]:
        out.append(("phase:regressed", f"phase went from {pre['phase']} to {o['phase']} while the block went "
                                       f"{pre['block']} -> {o['block']}"))
    # ---- tracked balances = real holdings during the deposit/withdraw phases
    if o["phase"] in (1, 2, 3):
        if o["lb"] != o["rl"]:
            out.append(("tracked:launched", f"phase {o['phase']}: launched_token_balance {o['lb']} != real holding {o['rl']}"))
        if o["ab"] != o["ra"]:
            out.append(("tracked:accepted", f"phase {o['phase']}: accepted_token_balance {o['ab']} != real holding {o['ra']}"))
    # ---- price view
    expp = o["ab"] * prec // o["lb"] if o["lb"] > 0 else -1
    if o["price"] != expp:
        out.append(("price:view-formula", f"getCurrentPrice = {o['price']}, floor(accepted*precision/launched) = {expp}"))
    # ---- total payouts: what has left a pool is at most the pool's share of the redeem tokens burned so far
    c1, c2 = sum(o["h1"].values()), sum(o["h2"].values())
    if (o["lb"] - o["rl"]) * o["s2"] > o["lb"] * (o["s2"] - c2) or o["rl"] < 0:
        out.append(("redeem:total-launched", f"launched paid out {o['lb'] - o['rl']} of pool {o['lb']} with "
                                             f"{o['s2'] - c2} of {o['s2']} nonce-2 tokens redeemed"))
    if (o["ab"] - o["ra"]) * o["s1"] > o["ab"] * (o["s1"] - c1) or o["ra"] < 0:
        out.append(("redeem:total-accepted", f"accepted paid out {o['ab'] - o['ra']} of pool {o['ab']} with "
                                             f"{o['s1'] - c1} of {o['s1']} nonce-1 tokens redeemed"))
    if k == "Tick":
        return out
    if not o["ok"]:
        if o.get("unchanged") is False:
            out.append(("failed-tx-changed-state", f"{op} failed but the contract's storage/balances changed"))
        return out
    caller = op[1]
    if k in ("Withdraw", "Redeem") and op[2] not in (1, 2):
        out.append(("foreign-token-accepted", f"{op} succeeded: the payment was not a redeem token "
                                              f"(returned {o['ret']} x {o['outs']}, caller wallet {o['dw'][caller]})"))
        return out
    others = {u: d for u, d in o["dw"].items() if u != caller and any(d.values())}
    if k != "Xfer" and others:
        out.append(("other-accounts-changed", f"{op}: wallets of other accounts changed: {others}"))
    if k == "Deposit":
        _, c, tok, amt = op
        if pre["phase"] not in (1, 2) or o["phase"] not in (1, 2):
            out.append(("gate:deposit", f"{op} accepted in phase {o['phase']}"))
        tr0, re0, su0, h0 = side(pre, tok)
        tr1, re1, su1, h1 = side(o, tok)
        if o["outs"] != [amt] or o["ret"] != [sp.TR.decode(), tok]:
            out.append(("deposit:mint", f"{op}: returned {o['ret']} x {o['outs']}, expected {amt} redeem tokens of nonce {tok}"))
        if (tr1 - tr0, re1 - re0, su1 - su0, h1[c] - h0[c]) != (amt, amt, amt, amt) or o["dw"][c][tok] != -amt \
                or side(pre, 3 - tok)[:3] != side(o, 3 - tok)[:3]:
            out.append(("deposit:balances", f"{op}: tracked {tr1 - tr0:+}, real {re1 - re0:+}, supply {su1 - su0:+}, "
                                            f"caller redeem tokens {h1[c] - h0[c]:+}, caller wallet {o['dw'][c][tok]:+}"))
        if tok == 1 and o["ab"] > 0 and o["price"] < cfg["minp"]:
            if o["price"] == 0:
                out.append(("floor:deposit-launched-zero-price",
                            f"{op} accepted with accepted liquidity {o['ab']}: price now rounds to 0 < minimum {cfg['minp']}"))
            else:
                out.append(("floor:deposit-launched", f"{op} accepted with accepted liquidity {o['ab']}: price now "
                                                      f"{o['price']} < minimum {cfg['minp']}"))
        if tok == 1 and o["ab"] == 0 and o["price"] != 0:
            out.append(("floor:bootstrap-price", f"{op}: no accepted tokens deposited but price is {o['price']}"))
    elif k == "Withdraw":
        _, c, n, amt = op
        if pre["phase"] not in (1, 2, 3) or o["phase"] not in (1, 2, 3):
            out.append(("gate:withdraw", f"{op} accepted in phase {o['phase']}"))
        pen = amt * pct // MAXP
        w = amt - pen
        tr0, re0, su0, h0 = side(pre, n)
        tr1, re1, su1, h1 = side(o, n)
        if o["outs"] != [w]:
            out.append(("withdraw:penalty-formula", f"{op} at {pct}/{MAXP}: paid {o['outs']}, documented amount - "
                                                    f"floor(amount*pct/MAX) = {w}"))
        if (tr1 - tr0, re1 - re0) != (-w, -w) or side(pre, 3 - n)[:3] != side(o, 3 - n)[:3]:
            out.append(("withdraw:penalty-left-pool", f"{op}: tracked {tr1 - tr0:+}, real {re1 - re0:+}; expected both "
                                                      f"-{w} (penalty {pen} stays)"))
        if (su1 - su0, h1[c] - h0[c]) != (-amt, -amt) or (o["own1"], o["own2"]) != (pre["own1"], pre["own2"]):
            out.append(("withdraw:burn", f"{op}: supply {su1 - su0:+}, caller redeem tokens {h1[c] - h0[c]:+}, contract's "
                                         f"own redeem tokens {pre['own1']},{pre['own2']} -> {o['own1']},{o['own2']}"))
        if o["dw"][c][n] != o["outs"][0] or o["ret"] != [(sp.TL if n == 1 else sp.TA).decode(), 0]:
            out.append(("withdraw:refund", f"{op}: caller wallet {o['dw'][c]}, returned {o['ret']} x {o['outs']}"))
        if o["price"] < cfg["minp"]:
            out.append(("floor:withdraw", f"{op} accepted, price now {o['price']} < minimum {cfg['minp']}"))
    elif k == "Redeem":
        _, c, n, amt = op
        if pre["phase"] != 4 or o["phase"] != 4:
            out.append(("gate:redeem", f"{op} accepted in phase {o['phase']}"))
        opp = 3 - n
        pool = side(pre, opp)[0]
        sup = side(pre, n)[2]
        q = pool * amt // sup if sup > 0 else None
        if o["outs"] != [q]:
            out.append(("redeem:formula", f"{op}: paid {o['outs']}, floor(pool {pool} * {amt} / supply {sup}) = {q}"))
        if (pre["lb"], pre["ab"], pre["s1"], pre["s2"]) != (o["lb"], o["ab"], o["s1"], o["s2"]):
            out.append(("redeem:frozen", f"{op}: pools/supplies changed: {(pre['lb'], pre['ab'], pre['s1'], pre['s2'])} -> "
                                         f"{(o['lb'], o['ab'], o['s1'], o['s2'])}"))
        h0, h1 = side(pre, n)[3], side(o, n)[3]
        if h1[c] - h0[c] != -amt or (o["own1"], o["own2"]) != (pre["own1"], pre["own2"]):
            out.append(("redeem:burn", f"{op}: caller redeem tokens {h1[c] - h0[c]:+}, contract's own "
                                       f"{pre['own1']},{pre['own2']} -> {o['own1']},{o['own2']}"))
        paid = o["outs"][0] if o["outs"] else 0
        if side(o, opp)[1] - side(pre, opp)[1] != -paid or side(o, n)[1] != side(pre, n)[1]:
            out.append(("redeem:payout-source", f"{op}: real holdings moved {side(o, 1)[1] - side(pre, 1)[1]:+} / "
                                                f"{side(o, 2)[1] - side(pre, 2)[1]:+}, expected -{paid} of token {opp} only"))
        got = o["dw"][c][opp] + o["dw"][c]["locked"]
        if got != paid or o["dw"][c][n] != 0 or o["ret"] != [(sp.TL if opp == 1 else sp.TA).decode(), 0]:
            out.append(("redeem:received", f"{op}: caller received {o['dw'][c]}, returned {o['ret']} x {o['outs']}"))
    return out


def mag(x):
    return len(str(x)) // 3


def nontrivial(cfg, op, o):
    k = op[0]
    pre = o["pre"]
    if k == "Tick":
        if o["phase"] != pre["phase"]:
            return ("phase", pre["phase"], o["phase"], min(cfg["dn"], 2), min(cfg["dl"], 2), min(cfg["df"], 2),
                    o["block"] - pre["block"])
        return None
    if not o["ok"]:
        m = o["msg"]
        if "not allowed in this phase" in m:
            return ("gate", k, o["phase"])
        if "below min price" in m:
            zero = k == "Deposit" and pre["lb"] + op[3] > pre["ab"] * 10 ** cfg["dec"]     # price would round to 0
            return ("floor-reject", k, op[2], o["phase"], zero, cfg["dec"] // 4, mag(op[3]))
        return None
    if k == "Withdraw":
        _, c, n, amt = op
        key = None
        if o["pct"] > 0 and amt > 0:
            key = ("wd", o["phase"], n, (amt * o["pct"]) % MAXP != 0, mag(amt), mag(o["pct"]))
        if cfg["minp"] > 0:
            key = ("floor-ok", k, n, o["phase"], o["price"] == cfg["minp"], cfg["dec"] // 4, mag(amt), key)
        return key
    if k == "Deposit":
        _, c, tok, amt = op
        if cfg["minp"] > 0 and tok == 1:
            return ("floor-ok", k, tok, o["phase"], o["price"] == cfg["minp"], o["ab"] == 0, cfg["dec"] // 4, mag(amt))
        return None
    if k == "Redeem":
        _, c, n, amt = op
        if amt == 0:
            return None
        pool = side(pre, 3 - n)[0]
        sup = side(pre, n)[2]
        return ("rd", n, (pool * amt) % sup != 0, o["dw"][c]["locked"] > 0, amt == side(pre, n)[3][c], mag(amt),
                mag(pool), mag(sup))
    return None


def budgets(tier):
    return (48, 40) if tier == "quick" else (1600, 60)


def strip(o):
    return {k: v for k, v in o.items() if k != "pre"}


def _gen(args):
    seed, nops = args
    cfg, deployed, obs0, trace = sp.gen_history(seed, nops)
    return seed, cfg, deployed, obs0, trace


def explore(tier, seed, model_ok=True, focus=False):
    ex = Exploration()
    ex.rule = RULE
    nh, nops = budgets(tier)
    seeds = [seed * 100000 + i for i in range(nh)]
    hist = []
    for c in CORPUS:
        deployed, obs0, tr = sp.replay_history(c["cfg"], c["ops"])
        hist.append((("corpus", c["name"]), c["cfg"], deployed, obs0, tr))
    with concurrent.futures.ProcessPoolExecutor(max_workers=16) as pool:
        for item in pool.map(_gen, [(s, nops) for s in seeds], chunksize=4):
            hist.append(item)
    terms = []
    for sd, cfg, deployed, obs0, trace in hist:
        ex.histories += 1
        ex.count("deploy:ok" if deployed else "deploy:err")
        ex.evaluations += len(trace) + 1
        ops_all = [t[0] for t in trace]
        if isinstance(sd, tuple) and sd[0] == "corpus":
            exp = next((c.get("expect_ok") for c in CORPUS if c["name"] == sd[1]), None)
            got = [o["ok"] for _, o in trace]
            if exp is not None and got != exp:
                ex.failures.append(dict(key=f"corpus:{sd[1]}", what=f"regression history {sd[1]}: accepted/rejected "
                                        f"pattern {got}, expected {exp}", replay=dict(cfg=cfg, ops=ops_all, seed=sd)))
        for i, (op, o) in enumerate(trace):
            ex.count(op[0] + (":ok" if o["ok"] else ":err"))
            ex.count(f"phase{o['phase']}")
            if not o["ok"]:
                ex.count("err:" + o["msg"][:40])
            if op[0] == "Deposit" and op[2] == 1 and cfg["minp"] > 0:
                if o["ok"] and o["ab"] == 0:
                    ex.count("floor:bootstrap-deposit-accepted")
                elif not o["ok"] and "below min price" in o["msg"] and o["pre"]["lb"] + op[3] > o["pre"]["ab"] * 10 ** cfg["dec"]:
                    ex.count("floor:zero-price-deposit-rejected")
            k = nontrivial(cfg, op, o)
            if k is not None:
                ex.nontrivial.add(k)
            for key, what in monitor(cfg, op, o):
                ex.failures.append(dict(key=key, what=what,
                                        replay=dict(cfg=cfg, ops=ops_all[:i + 1], seed=sd, observed=strip(o))))
        terms.append(sp.coq_history(cfg, deployed, obs0, trace))
        if len(ex.samples) < 4:
            ex.samples.append(dict(seed=sd, cfg=cfg, deployed=deployed,
                                   ops=[[op, "ok" if o["ok"] else o["msg"], o["outs"], f"phase {o['phase']}"]
                                        for op, o in trace[:14]]))
    if model_ok:
        res = coqrun.eval_terms(IMPORTS, terms, tag="C17", per_file=max(1, min(25, len(terms) // 16 + 1)))
        ex.traces_validated = len(res)
        for (sd, cfg, deployed, obs0, trace), r in zip(hist, res):
            if r:
                i = r[0]
                d = dict(where="Run.PriceDiscoveryRun.check_history", seed=sd, cfg=cfg, index=i, field=r[1],
                         model=r[2], impl=r[3], ops=[t[0] for t in trace])
                if 0 <= i < len(trace):
                    d["op"] = trace[i][0]
                    d["observed"] = strip(trace[i][1])
                ex.disagreements.append(d)
    return ex


def replay(data):
    rp = data["replay"]
    deployed, obs0, trace = sp.replay_history(rp["cfg"], rp["ops"])
    fails = []
    for op, o in trace:
        for key, what in monitor(rp["cfg"], op, o):
            fails.append(dict(key=key, what=what))
    sd = rp.get("seed")
    if isinstance(sd, (list, tuple)) and len(sd) == 2 and sd[0] == "corpus":
        exp = next((c.get("expect_ok") for c in CORPUS if c["name"] == sd[1]), None)
        got = [o["ok"] for _, o in trace]
        if exp is not None and got != exp:
            fails.append(dict(key=f"corpus:{sd[1]}", what=f"accepted/rejected pattern {got}, expected {exp}"))
    return fails
