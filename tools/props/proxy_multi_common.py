"""C16 with several intermediated pairs: exploration driver and monitors evaluated on REAL observations
(tools/sys_proxydex_multi.py; Coq side Model/ProxyMulti.v, Run/ProxyMultiRun.v, Proofs/ProxyMultiProofs.v, Props/C16_multi.v).

Monitors (keys are stable identifiers of the failing clause):
  multi-backing:<pair>             LP tokens of pair <pair>'s LP token id held by the proxy < wrapped LP tokens in users' hands whose
                                   attributes record that LP token id ("every wrapped LP token is backed by the LP tokens recorded
                                   in it, which the proxy holds" - per LP token id, which is what `recorded in it` means)
  multi-backing:unknown-lp-id      an outstanding wrapped LP token records an LP token id of no intermediated pair
  merge-across-pairs-accepted      a successful mergeWrappedLpTokens / addLiquidityProxy-with-merge whose inputs record different LP
                                   token ids (or locked token ids): the merged token would record LP the proxy does not hold for it
  merge-lp-amount                  the merged wrapped LP token's recorded LP amount / returned amount != sum of the inputs recording
                                   the LP token id it records (+ the LP minted by the pair, for an add with merge)
  merge-lp-id                      the merged / re-wrapped (increase energy) token records another LP token id than its inputs
  add-records-lp-of-pair           addLiquidityProxy(pair) created a wrapped LP token that does not record that pair's LP token id
  merge-across-farms-accepted      a successful mergeWrappedFarmTokens / enterFarmProxy-with-merge whose inputs record different
                                   farm token ids or different proxy farming token ids
  merge-farm-amount                the merged wrapped farm token's farm amount != sum of the inputs
  + every C16 monitor of tools/props/c16.py, evaluated with the reserves / balances of the pair the operation addresses.
"""
import json, concurrent.futures
import sys_proxydex_multi as pm
import sys_proxydex as sp
import coqrun
from framework import Exploration
from props import c16

RULE = ("stateful generator over the real composed system with TWO intermediated pairs (MEX/WEGLD and MEX/USDC, own LP tokens) + "
        "base-asset farm + LP farm + energy factory + proxy_dex: the generator of C16 (unchanged, on pair 0) interleaved with add / "
        "partial remove / increase-energy / transfers / trades on pair 1, merges of wrapped LP tokens within one pair (either "
        "pair), and what has to be refused: merges mixing wrapped LP tokens of the two pairs (both orders, 2-3 inputs, through "
        "mergeWrappedLpTokens and through addLiquidityProxy-with-merge), merges mixing wrapped farm tokens of the two farms "
        "(mergeWrappedFarmTokens on either farm, enterFarmProxy-with-merge), removeLiquidityProxy naming the other pair, the "
        "other pair's LP entering the LP farm; non-trivial = C16's classes + (pair, cross-pair / cross-farm attempt, outcome)")


def budgets(tier):
    return (32, 40) if tier == "quick" else (400, 60)


def op_pair(op):
    return op[2] if op[0] in ("AddLiq", "RemoveLiq") and op[2] in (0, 1) else 0


def adapt(o, pid):
    """the observation as tools/props/c16.py reads it, for an operation addressing pair [pid]"""
    def one(x):
        y = dict(x)
        y["rbase"], y["rother"], y["S"] = x["res"][pid]
        y["uother"] = x["uoth"][pid]
        y["lp"] = sum(x["lp"].values())
        return y
    a = one(o)
    a["pre"] = one(o["pre"])
    return a


def monitor(cfg, op, o):
    out = []
    k = op[0]
    tab, ftab = o["wlp_tab"], o["wfm_tab"]
    # ---------------------------------------------------------------- backing per LP token id
    for pid in (0, 1):
        need = sum(v for key, v in o["hlp"].items() if tab[key // 16]["pair"] == pid)
        have = o["lp"].get(pid, 0)
        if have < need:
            out.append((f"multi-backing:{pid}", f"after {op}: the proxy holds {have} of pair {pid}'s LP token, wrapped LP tokens in "
                        f"users' hands record {need} of it"))
    for n, w in tab.items():
        if w["pair"] not in (0, 1) and o["usr"].get(n, 0) > 0:
            out.append(("multi-backing:unknown-lp-id", f"wrapped LP nonce {n} records LP token id {w['lpid']}"))
    if o["ok"]:
        new = o["new_wlp"][max(o["new_wlp"])] if o["new_wlp"] else None
        if k in ("MergeWlp", "AddLiq"):
            ins = op[2] if k == "MergeWlp" else op[5]
            ids = [tab[p[1]]["lpid"] for p in ins]
            lids = [tab[p[1]]["tid"] for p in ins]
            if k == "AddLiq":
                pid = op[2]
                if new["lpid"] != pm.LPTOK.get(pid):
                    out.append(("add-records-lp-of-pair", f"{op}: the new wrapped LP token records {new['lpid']}, pair {pid}'s LP token is {pm.LPTOK.get(pid)}"))
                ids, lids = ids + [pm.LPTOK.get(pid)], lids + [pm.LOCKED]
                minted = o["res"][pid][2] - o["pre"]["res"][pid][2]
            else:
                minted = 0
            if len(set(ids)) > 1 or len(set(lids)) > 1:
                out.append(("merge-across-pairs-accepted", f"{op} succeeded; LP token ids recorded by the inputs: {ids}, locked token ids {lids}"))
            if ins:
                same = minted + sum(p[2] for p in ins if tab[p[1]]["lpid"] == new["lpid"])
                if new["T"] != same or o["outs"][0][2] != same:
                    out.append(("merge-lp-amount", f"{op}: merged token records {new['T']} LP (returned {o['outs'][0][2]}), inputs recording {new['lpid']} sum to {same}"))
                if new["lpid"] not in ids:
                    out.append(("merge-lp-id", f"{op}: merged token records {new['lpid']}, inputs record {ids}"))
        elif k == "IncLp":
            if new["lpid"] != tab[op[2][1]]["lpid"]:
                out.append(("merge-lp-id", f"{op}: the re-wrapped token records {new['lpid']}, the input {tab[op[2][1]]['lpid']}"))
        if k in ("MergeWfm", "EnterFarm"):
            ins = op[3] if k == "MergeWfm" else op[4]
            if ins:
                kinds = [(ftab[p[1]]["ft"], ftab[p[1]]["pt"]) for p in ins]
                tot = sum(p[2] for p in ins)
                if k == "EnterFarm":
                    kinds.append((sp.FARMTOK.get(op[2]), pm.LOCKED if op[3][0] == 2 else pm.WPLP))
                    tot += o["fsup"][op[2]] - o["pre"]["fsup"][op[2]]
                if len(set(kinds)) > 1:
                    out.append(("merge-across-farms-accepted", f"{op} succeeded; (farm token id, proxy farming token id) of the inputs: {kinds}"))
                nf = o["new_wfm"][max(o["new_wfm"])]
                if nf["T"] != tot or o["outs"][0][2] != tot:
                    out.append(("merge-farm-amount", f"{op}: merged wrapped farm token records {nf['T']} farm tokens (returned {o['outs'][0][2]}), inputs sum to {tot}"))
                if k == "MergeWfm" and nf["pt"] == pm.WPLP:
                    under = [tab[ftab[p[1]]["pn"]]["lpid"] for p in ins]
                    if len(set(under + [tab[nf["pn"]]["lpid"]])) > 1:
                        out.append(("merge-across-pairs-accepted", f"{op}: wrapped LP tokens under the merged farm positions record {under}, the new one {tab[nf['pn']]['lpid']}"))
    # ---------------------------------------------------------------- C16 on the pair addressed
    out += c16.monitor(cfg, op, adapt(o, op_pair(op)))
    return out


def safe_monitor(cfg, op, o):
    try:
        return monitor(cfg, op, o)
    except Exception as e:  # an unevaluable observation is a failure, not a crash of the check
        import traceback
        return [(f"monitor-cannot-evaluate:{op[0]}", f"{op}: {type(e).__name__}: {e} | " + traceback.format_exc().splitlines()[-3].strip())]


def cross(op, o):
    """which cross-pair / cross-farm attempt this operation is (None: an ordinary operation)"""
    k = op[0]
    tab, ftab = o["wlp_tab"], o["wfm_tab"]
    try:
        if k == "MergeWlp":
            ids = {tab[p[1]]["pair"] for p in op[2]}
            return "merge-wlp-across-pairs" if len(ids) > 1 else None
        if k == "AddLiq" and op[5]:
            ids = {tab[p[1]]["pair"] for p in op[5]} | {op[2]}
            return "add-merge-across-pairs" if len(ids) > 1 else None
        if k == "RemoveLiq" and op[3][0] == 3 and op[2] in (0, 1):
            return "remove-naming-other-pair" if tab[op[3][1]]["pair"] != op[2] else None
        if k == "EnterFarm":
            if op[3][0] == 3 and op[2] == 1 and tab[op[3][1]]["pair"] != 0:
                return "other-pairs-lp-into-lp-farm"
            if op[4]:
                ks = {ftab[p[1]]["ft"] for p in op[4]} | {sp.FARMTOK.get(op[2])}
                return "enter-merge-across-farms" if len(ks) > 1 else None
        if k == "MergeWfm":
            ks = {ftab[p[1]]["ft"] for p in op[3]}
            return "merge-wfm-across-farms" if len(ks) > 1 else None
    except KeyError:
        return None
    return None


def nontrivial(cfg, op, o):
    c = cross(op, o)
    if c:
        return (c, o["ok"], len(op[2]) if op[0] == "MergeWlp" else 0)
    if not o["ok"]:
        return None
    nk = c16.nontrivial(cfg, op, adapt(o, op_pair(op)))
    if nk is None:
        return None
    pair = op_pair(op)
    if op[0] in ("MergeWlp", "IncLp"):
        p = op[2][0] if op[0] == "MergeWlp" else op[2]
        pair = o["wlp_tab"][p[1]]["pair"]
    return nk + (pair,)


def strip(o):
    return {k: v for k, v in o.items() if k not in ("pre", "wlp_tab", "wfm_tab", "unlock_tab")}


def jsonable(x):
    return json.loads(json.dumps(x, default=str))


def _gen(args):
    seed, nops = args
    cfg, trace = pm.gen_history(seed, nops)
    return seed, cfg, trace


def explore_multi(pid, tier, seed, model_ok=True, focus=False, scale=None):
    """scale: (histories, operations per history) overriding the tier's budget"""
    ex = Exploration()
    ex.rule = RULE
    nh, nops = scale or budgets(tier)
    seeds = [seed * 100000 + 70000 + i for i in range(nh)]
    hist = []
    with concurrent.futures.ProcessPoolExecutor(max_workers=16) as pool:
        for sd, cfg, trace in pool.map(_gen, [(s, nops) for s in seeds], chunksize=1):
            hist.append((sd, cfg, trace))
    terms = []
    for sd, cfg, trace in hist:
        tr = [(op, o) for op, o in trace if o is not None]
        ex.histories += 1
        ex.evaluations += len(tr)
        ops_all = [t[0] for t in trace]
        for j, (op, o) in enumerate(trace):
            k = op[0]
            if o is None:
                ex.count("multi:" + k)
                continue
            ex.count(f"multi:{k}:" + ("ok" if o["ok"] else "err"))
            ex.count("multi:ops:ok" if o["ok"] else "multi:ops:err")
            if k in ("AddLiq", "RemoveLiq") and op[2] == 1 or (k in ("MergeWlp", "IncLp") and
                                                                 o["wlp_tab"].get((op[2][0] if k == "MergeWlp" else op[2])[1], {}).get("pair") == 1):
                ex.count(f"multi:pair1:{k}:" + ("ok" if o["ok"] else "err"))
            c = cross(op, o)
            if c:
                ex.count(f"case:{c}:" + ("ACCEPTED" if o["ok"] else "refused"))
            if not o["ok"]:
                ex.count("err:multi:" + k + ":" + o["msg"][:44])
                if o.get("unchanged") is False:
                    ex.failures.append(dict(key="failed-tx-changed-state", what=f"{op} failed but the proxy's storage/balances changed",
                                            replay=dict(system="proxy_multi", cfg=cfg, ops=ops_all[:j + 1], seed=sd)))
            elif k == "MergeWlp" and len({p[1] for p in op[2]}) > 1:
                ex.count(f"case:merge-wlp-same-pair:pair{o['wlp_tab'][op[2][0][1]]['pair']}")
            nk = nontrivial(cfg, op, o)
            if nk is not None:
                ex.nontrivial.add(nk)
            for key, what in safe_monitor(cfg, op, o):
                ex.failures.append(dict(key=key, what=what, replay=dict(system="proxy_multi", cfg=cfg, ops=ops_all[:j + 1], seed=sd,
                                                                          observed=jsonable(strip(o)))))
        terms.append(pm.coq_history(cfg, tr))
        if len(ex.samples) < 2:
            ex.samples.append(dict(system="proxy_multi", seed=sd, cfg=cfg,
                                   ops=[[op, "ok" if o["ok"] else o["msg"], o["outs"]] for op, o in tr[:14]]))
    if model_ok:
        try:
            res = coqrun.eval_terms(pm.IMPORTS, terms, tag=f"{pid}pm", per_file=max(1, min(25, len(terms) // 16 + 1)))
        except Exception as e:
            ex.disagreements.append(dict(where="Run.ProxyMultiRun.check_trace", detail=f"evaluation failed: {str(e)[-1500:]}"))
            return ex
        ex.traces_validated += len(res)
        ex.count("traces replayed on the two-pair model", len(res))
        for (sd, cfg, trace), r in zip(hist, res):
            if r:
                tr = [(op, o) for op, o in trace if o is not None]
                i = r[0]
                # the prefix of ALL operations (with Time / Trade) up to the disagreeing one, for replay
                upto, seen = [], -1
                for op, o in trace:
                    upto.append(op)
                    if o is not None:
                        seen += 1
                        if seen == i:
                            break
                ex.disagreements.append(dict(where="Run.ProxyMultiRun.check_trace", system="proxy_multi", seed=sd, cfg=cfg, index=i,
                                             field=r[1], model=r[2], impl=r[3], op=tr[i][0], observed=jsonable(strip(tr[i][1])),
                                             ops=upto))
    return ex


def replay_multi(data):
    rp = data["replay"]
    trace = pm.replay_history(rp["cfg"], rp["ops"])
    fails = []
    for op, o in trace:
        if o is None:
            continue
        for key, what in safe_monitor(rp["cfg"], op, o):
            fails.append(dict(key=key, what=what))
    return fails


def merge(ex, ex2):
    ex.evaluations += ex2.evaluations
    ex.histories += ex2.histories
    ex.nontrivial |= ex2.nontrivial
    ex.failures += ex2.failures
    ex.disagreements += ex2.disagreements
    ex.traces_validated += ex2.traces_validated
    ex.samples += ex2.samples[:1]
    ex.notes += ex2.notes
    for k, v in ex2.counters.items():
        ex.counters[k] = ex.counters.get(k, 0) + v
    return ex
