"""C04 — liquidity minted/redeemed pro rata; first deposit locks a floor."""
from props.pair_common import explore_pair, replay_pair

ASSUMPTIONS = ["A-VM"]
RULE = ("same generator as C01 (balanced / skewed either way / 1-unit deposits, LP amounts from 1 to the whole balance, "
        "minimums either side of the optimum, pairs with and without initial adder); non-trivial = successful add/remove "
        "where a floor is inexact or a refund occurs or it is a first deposit; distinct by (op, which side limits, inexact flags, magnitudes)")
MINLIQ = 1000


def monitor(cfg, op, o):
    if op[0] == "AddInitial" and o["ok"] and o["pre"]["S"] != 0:
        # the first deposit is the ONLY initial one: a later "initial" deposit would overwrite the LP supply (and the locked floor)
        return [("initial-liquidity-on-funded-pool", f"{op} succeeded although the LP supply was {o['pre']['S']}; supply now {o['S']}, reserves {(o['r1'], o['r2'])}")]
    out = []
    pre = o["pre"]
    if op[0] == "Remove" and o.get("view_pos") is not None and pre["S"] > 0:
        lp = op[2]
        want = [lp * pre["r1"] // pre["S"], lp * pre["r2"] // pre["S"]]
        if o["view_pos"] != want:
            out.append(("position-view-formula", f"getTokensForGivenPosition({lp}) = {o['view_pos']}, floor(lp*reserve/S) = {want} (reserves {(pre['r1'], pre['r2'])}, S {pre['S']})"))
        if o["ok"] and o["outs"][:2] != o["view_pos"]:
            out.append(("position-view-vs-remove", f"{op}: removeLiquidity paid {o['outs'][:2]}, the view quoted {o['view_pos']}"))
    if o["S"] > 0 and (o["S"] < MINLIQ or o["lp"][0] < MINLIQ):
        out.append(("locked-floor", f"after {op}: LP supply {o['S']}, pair holds {o['lp'][0]} (floor {MINLIQ})"))
    if not o["ok"]:
        return out
    k = op[0]
    if k == "Add" and pre["S"] > 0:
        _, c, a1, a2, m1, m2 = op
        r1, r2, S = pre["r1"], pre["r2"], pre["S"]
        q2 = a1 * r2 // r1
        if q2 <= a2:
            e1, e2 = a1, q2
        else:
            e1, e2 = a2 * r1 // r2, a2
        liq = min(e1 * S // r1, e2 * S // r2)
        if o["outs"] != [liq, e1, e2]:
            out.append(("add-amounts", f"{op} on ({r1},{r2},{S}): returned {o['outs']}, documented rule gives {[liq, e1, e2]}"))
        else:
            if e1 < m1 or e2 < m2:
                out.append(("add-below-minimum", f"{op}: used ({e1},{e2}) below minimums ({m1},{m2})"))
            if liq <= 0:
                out.append(("add-zero-liquidity", f"{op}: minted {liq}"))
            if o["dcaller"] != {1: -e1, 2: -e2}:
                out.append(("add-refund", f"{op}: caller deltas {o['dcaller']}, expected {-e1},{-e2}"))
            if o["lp"][c] - pre["lp"][c] != liq or o["S"] - S != liq:
                out.append(("add-lp-minted", f"{op}: caller LP +{o['lp'][c] - pre['lp'][c]}, supply +{o['S'] - S}, expected {liq}"))
            if (o["r1"], o["r2"]) != (r1 + e1, r2 + e2):
                out.append(("add-reserves", f"{op}: reserves {(o['r1'], o['r2'])}, expected {(r1 + e1, r2 + e2)}"))
    elif k in ("Add", "AddInitial") and pre["S"] == 0:
        c, a1, a2 = op[1], op[2], op[3]
        tot = min(a1, a2)
        if tot <= MINLIQ:
            out.append(("first-deposit-too-small", f"{op} accepted with min(a1,a2) = {tot}"))
        if o["S"] != tot or o["lp"][0] - pre["lp"][0] != MINLIQ or o["lp"][c] - pre["lp"][c] != tot - MINLIQ:
            out.append(("first-deposit-lock", f"{op}: supply {o['S']}, pair LP +{o['lp'][0] - pre['lp'][0]}, caller LP +{o['lp'][c] - pre['lp'][c]}"))
        if k == "Add" and cfg.get("adder"):
            out.append(("initial-adder-bypassed", f"{op} succeeded before the configured initial adder deposited"))
        if k == "AddInitial" and cfg.get("adder") and c != cfg["adder"]:
            out.append(("initial-adder-bypassed", f"{op} by a caller other than the configured adder {cfg['adder']}"))
        if k == "AddInitial" and pre["state"] != 0:
            out.append(("initial-liquidity-while-active", f"{op} accepted in state {pre['state']}"))
    elif k == "AddInitial" and pre["S"] > 0:
        out.append(("initial-liquidity-twice", f"{op} accepted with LP supply {pre['S']}"))
    elif k == "Remove":
        _, c, lp, m1, m2 = op
        r1, r2, S = pre["r1"], pre["r2"], pre["S"]
        x1, x2 = lp * r1 // S, lp * r2 // S
        if o["outs"] != [x1, x2]:
            out.append(("remove-amounts", f"{op} on ({r1},{r2},{S}): returned {o['outs']}, pro rata floor is {[x1, x2]}"))
        else:
            if x1 < m1 or x2 < m2:
                out.append(("remove-below-minimum", f"{op}: paid ({x1},{x2}) below minimums ({m1},{m2})"))
            if o["dcaller"] != {1: x1, 2: x2}:
                out.append(("remove-payout", f"{op}: caller deltas {o['dcaller']}, expected +{x1},+{x2}"))
            if o["S"] != S - lp or pre["lp"][c] - o["lp"][c] != lp:
                out.append(("remove-lp-burned", f"{op}: supply {S}->{o['S']}, caller LP {pre['lp'][c]}->{o['lp'][c]}"))
            if (o["r1"], o["r2"]) != (r1 - x1, r2 - x2):
                out.append(("remove-reserves", f"{op}: reserves {(o['r1'], o['r2'])}, expected {(r1 - x1, r2 - x2)}"))
    return out


def nontrivial(cfg, op, o):
    if not o["ok"] or op[0] not in ("Add", "AddInitial", "Remove"):
        return None
    pre = o["pre"]
    if pre["S"] == 0:
        return (op[0], "first", bool(cfg.get("adder")), len(str(o["S"])) // 3)
    r1, r2, S = pre["r1"], pre["r2"], pre["S"]
    if op[0] == "Add":
        _, c, a1, a2, m1, m2 = op
        first_limits = a1 * r2 // r1 <= a2
        refund = o["dcaller"] != {1: -a1, 2: -a2}
        inexact = ((a1 * r2) % r1 != 0, (o["outs"][1] * S) % r1 != 0, (o["outs"][2] * S) % r2 != 0)
        if not (refund or any(inexact)):
            return None
        return ("Add", first_limits, refund) + inexact + (len(str(S)) // 4, len(str(r1)) // 4, len(str(r2)) // 4)
    if op[0] == "AddInitial":
        return ("AddInitial", "on-funded-pool")          # only a broken contract accepts this
    _, c, lp, m1, m2 = op
    inexact = ((lp * r1) % S != 0, (lp * r2) % S != 0)
    if not any(inexact):
        return None
    return ("Remove",) + inexact + (lp == pre["lp"].get(c), len(str(S)) // 4, len(str(lp)) // 4)


def explore(tier, seed, model_ok=True, focus=False):
    return explore_pair("C04", tier, seed, monitor, nontrivial, RULE, model_ok, focus)


def replay(data):
    return replay_pair(data, monitor)
