"""C13 — the safe price over rounds (s, e] is the exact time-weighted average of start-of-round reserves."""
import concurrent.futures
import sys_safeprice as ssp
import coqrun
from framework import Exploration

ASSUMPTIONS = ["A-VM", "A-U64"]
IMPORTS = "Base.Prelude Gen.Params Model.Pair Run.PairRun Model.SafePrice Run.SafePriceRun"
RULE = ("two kinds of histories on the real pair contract: (i) live histories - pool operations from the C01 generator "
        "interleaved with round advances (gaps 1..70000, several operations per round) and safe-price queries; "
        "(ii) injected histories - the ring of 1 .. 2*65536+1 update calls (run-length segments, gaps 1..5000) is written "
        "into price_observations/safe_price_current_index with the real capacity (plans: partial, capacity-1, exactly full, "
        "wrapped by 1, 2, mid, 2N-1, 2N, 2N+1), then queried and continued with real operations.  Query rounds are drawn "
        "per class: oldest / recorded / between two observations / newest / after the newest / now / the observations "
        "stored at ring indices 1, 2, N-1, N, current, current+-1, oldest slot, each +-1 / before the oldest / in the future / "
        "s >= e; all views and both legacy endpoints.  non-trivial = a query answered Ok whose window sums are not all "
        "multiples of the window length or that needed interpolation / extrapolation / a wrapped ring, or a rejected "
        "malformed window; distinct by (query kind, ring class, lookup branch and ring position of s and of e, "
        "inexactness of the two averaging divisions and of the final division, magnitude of the result)")


# ------------------------------------------------------------------ monitors (the property's own predicate)
def window_expect(op, o):
    """('err', why) | ('ok', [values]) | None when the property does not decide (malformed token)"""
    q = ssp.qargs(op)
    kind = q[0]
    win = o.get("window")
    now, old = o["now"], o["oldest"]
    if old is None:
        return ("err", "no-observation")
    if win is None:
        return ("err", "no-observation")
    s, e = win
    if s >= e:
        return ("err", "start-not-before-end")
    if s < old:
        return ("err", "start-before-oldest")
    if e > now:
        return ("err", "end-in-future")
    sums = o["sums"]
    n = e - s
    w1, w2, wl = sums[0] // n, sums[1] // n, sums[2] // n
    if kind.startswith("QPrice"):
        tok, amt = q[-2], q[-1]
        if tok == 1:
            return ("ok", [2, amt * w2 // w1])
        if tok == 2:
            return ("ok", [1, amt * w1 // w2])
        return None
    liq = q[-1]
    if o.get("legacy"):
        return None                      # pre-LP-accumulator observations: outside the property's text
    return ("ok", [liq * w1 // wl, liq * w2 // wl])


def monitor(cfg, op, o):
    out = []
    if op[0] != "Q":
        return out
    q = ssp.qargs(op)
    kind = q[0]
    now, old = o["now"], o["oldest"]
    if "ok2" in o and (o["ok"], o["res"]) != (o["ok2"], o["res2"]):
        out.append(("view-differs-through-second-instance",
                    f"{op}: asked on the pair itself: {'ok' if o['ok'] else o['msg']} {o['res']}; the same view executed by "
                    f"another pair instance with the pair's address as argument: {'ok' if o['ok2'] else o['msg2']} {o['res2']}"))
    if kind == "QObs":
        x = q[1]
        if old is None or x < old or x > now:
            if o["ok"]:
                why = "no-observation" if old is None else "before-oldest" if x < old else "in-future"
                out.append((f"observation-accepted:{why}", f"getPriceObservation({x}) answered {o['res']} with oldest retained "
                            f"round {old}, current round {now}"))
            return out
        if not o["ok"]:
            out.append(("observation-rejected-in-range", f"getPriceObservation({x}) failed ({o['msg']}) although "
                        f"{old} <= {x} <= {now}"))
            return out
        ref = o.get("ref")
        if ref is None:
            out.append(("observation-rejected-in-range", f"getPriceObservation(oldest={old}) failed"))
            return out
        r, sums = o["res"], o["sums"]
        exp = [ref[0] + sums[0], ref[1] + sums[1], ref[2] + (x - old), x, ref[4] + sums[2]]
        if o.get("legacy"):
            r, exp = r[:4], exp[:4]
        if r != exp:
            out.append(("observation-not-prefix-sum", f"getPriceObservation({x}) = {r}; oldest observation {ref} plus the "
                        f"start-of-round reserves summed over ({old}, {x}] gives {exp}"))
        return out
    exp = window_expect(op, o)
    if exp is None:
        return out
    if exp[0] == "err":
        if o["ok"]:
            out.append((f"window-accepted:{exp[1]}", f"{q} answered {o['res']} at round {now} (window {o.get('window')}, "
                        f"oldest retained {old})"))
        return out
    if not o["ok"]:
        out.append(("window-rejected-in-range", f"{q} failed ({o['msg']}) at round {now}: window {o['window']} lies inside "
                    f"[{old}, {now}]"))
        return out
    if o["res"] != exp[1]:
        n = o["window"][1] - o["window"][0]
        out.append((("safe-price-not-average" if kind.startswith("QPrice") else "lp-safe-price-not-average"),
                    f"{q} at round {now} returned {o['res']}; averages of the start-of-round reserves over "
                    f"{o['window']} are {[x // n for x in o['sums']]} giving {exp[1]}"))
    return out


def mag(n):
    return min(12, len(str(n)) // 3)


def nontrivial(cfg, op, o):
    if op[0] != "Q":
        return None
    q = ssp.qargs(op)
    kind = q[0]
    cls = tuple(o.get("classes", ()))
    rc = o["ring_class"]
    if not o["ok"]:
        if kind == "QObs":
            return ("rej", kind, rc, cls)
        exp = window_expect(op, o)
        return ("rej", kind, rc, cls, exp[1] if exp else "bad-token")
    if kind == "QObs":
        if cls and (cls[0].startswith("interp") or cls[0] == "extrapolated" or rc in ("full", "wrapped")):
            return ("obs", rc, cls, mag(o["res"][0]))
        return None
    sums = o.get("sums")
    if not sums:
        return None
    n = o["window"][1] - o["window"][0]
    inexact = tuple(int(x % n != 0) for x in sums)
    w1, w2, wl = (x // n for x in sums)
    if kind.startswith("QPrice"):
        tok, amt = q[-2], q[-1]
        num, den = (amt * w2, w1) if tok == 1 else (amt * w1, w2)
        fin = int(den != 0 and num % den != 0)
    else:
        fin = int(wl != 0 and (q[-1] * w1) % wl != 0)
    interesting = any(inexact) or any(c.startswith("interp") or c == "extrapolated" for c in cls) or rc in ("full", "wrapped")
    if not interesting:
        return None
    return (kind, o.get("via"), rc, cls, inexact, fin, mag(o["res"][-1]))


# ------------------------------------------------------------------ exploration
def _hashable(x):
    """class keys may contain an expected result (a list) when a query that should succeed is rejected"""
    return tuple(_hashable(i) for i in x) if isinstance(x, (list, tuple)) else x


def budgets(tier):
    return (48, 40) if tier == "quick" else (1600, 60)


def _gen(args):
    seed, nops, idx = args
    cfg, trace = ssp.gen_history(seed, nops, idx)
    return seed, cfg, trace


def strip(o):
    return {k: v for k, v in o.items()}


def explore(tier, seed, model_ok=True, focus=False):
    ex = Exploration()
    ex.rule = RULE
    nh, nops = budgets(tier)
    jobs = [(seed * 100000 + i, nops, i) for i in range(nh)]
    hist = []
    with concurrent.futures.ProcessPoolExecutor(max_workers=16) as pool:
        for sd, cfg, trace in pool.map(_gen, jobs, chunksize=1):
            hist.append((sd, cfg, trace))
    terms = []
    for sd, cfg, trace in hist:
        tr = [(op, o) for op, o in trace if o is not None]
        ops_all = [t[0] for t in trace]
        ex.histories += 1
        ex.count("history:" + cfg["mode"] + (":" + cfg["plan"] if cfg["mode"] == "inject" else ""))
        for op, o in tr:
            if op[0] == "Inject":
                ex.count("inject:" + o["ring_class"])
                if o.get("cur") is not None and op[2]:
                    ex.count("inject:with-legacy-entries")
                continue
            ex.evaluations += 1
            name = op[1] if op[0] == "Q" else op[0]
            ex.count(name + (":ok" if o["ok"] else ":err"))
            ex.count("all:ok" if o["ok"] else "all:err")
            if not o["ok"]:
                ex.count("err:" + o["msg"][:40])
            if op[0] == "Q":
                ex.count("ring:" + o["ring_class"])
                for c in o.get("classes", ()):
                    ex.count(f"lookup:{o['ring_class']}:{c}")
                if o.get("via") == "endpoint":
                    ex.count("via-legacy-endpoint")
            elif o.get("recorded"):
                ex.count("observation-recorded:" + o["ring_class"])
            k = nontrivial(cfg, op, o)
            if k is not None:
                ex.nontrivial.add(_hashable(k))
            for key, what in monitor(cfg, op, o):
                idx = [j for j, t in enumerate(trace) if t[1] is o][0]
                ex.failures.append(dict(key=key, what=what, replay=dict(cfg=cfg, ops=ops_all[:idx + 1], seed=sd,
                                                                          observed=strip(o))))
        terms.append(ssp.coq_history(cfg, tr))
        if len(ex.samples) < 4 and (cfg["mode"] == "live" or len(ex.samples) % 2):
            ex.samples.append(dict(seed=sd, cfg=cfg, ops=[[(op if op[0] != "Inject" else ["Inject", op[1][:3], op[2], op[3]]),
                                                           "round %d" % o.get("round", o.get("now", 0)),
                                                           "ok" if o["ok"] else o["msg"], o.get("res", o.get("last"))]
                                                          for op, o in tr[:14]]))
    if model_ok:
        res = coqrun.eval_terms(IMPORTS, terms, tag="C13", per_file=max(1, min(25, len(terms) // 16 + 1)))
        ex.traces_validated = len(res)
        for (sd, cfg, trace), r in zip(hist, res):
            if r:
                tr = [(op, o) for op, o in trace if o is not None]
                i = r[0]
                op = tr[i][0]
                ex.disagreements.append(dict(where="Run.SafePriceRun.check_trace", seed=sd, cfg=cfg, index=i, field=r[1],
                                             model=r[2], impl=r[3], op=op if op[0] != "Inject" else "Inject",
                                             observed=strip(tr[i][1]),
                                             ops=[t[0] for t in trace][:[j for j, t in enumerate(trace) if t[1] is tr[i][1]][0] + 1]))
    return ex


def replay(data):
    rp = data["replay"]
    trace = ssp.replay_history(rp["cfg"], rp["ops"])
    fails = []
    for op, o in trace:
        if o is None:
            continue
        for key, what in monitor(rp["cfg"], op, o):
            fails.append(dict(key=key, what=what))
    return fails
