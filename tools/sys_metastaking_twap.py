"""Metastaking world with an INDEPENDENT reference for the safe price (C15, clause "the staked value it
registers is the pool's safe price of the position, not the spot price").

Derived from tools/sys_metastaking.py (same deployment of the real pair + farm-with-locked-rewards +
farm-staking + farm-staking-proxy + energy-factory + permissions-hub, same proxy operations, same
observation dicts) by subclassing.  Two things are added.

1. The pool is traded the way the property's quantifier says ("while the underlying pool is traded and time
   advances") with EVERY reserve-changing pair endpoint a third party can reach:
     ["Swap", dir, amount_in]               swapTokensFixedInput  (base class)
     ["SwapOut", dir, amount_out]           swapTokensFixedOutput (dir 1: pays the first token)
     ["AddLiq", a1, a2]                     addLiquidity by a third party (the pool owner)
     ["RemLiq", lp]                         removeLiquidity by the same third party
     ["Enter", u, amt] / Unstake            (base class: add liquidity by a user / remove liquidity by the proxy)
     ["Time", dblocks, drounds, depochs]    quiet gaps of 1 .. 1000 rounds
   each of them also as the FIRST pair action of a round and several in one round.

2. The world keeps its own LEDGER of the pair, independent of the pair's observation ring:
     * before every operation it reads getReservesAndTotalSupply; when the answer differs after the
       operation a pair action happened in this round (a swap always moves a reserve, add / remove always
       moves the LP supply).  The values read before the FIRST pair action of a round are the reserves and
       LP supply in effect at the START of that round (documented: dex/pair/README.md "safe price",
       property C13): they are the ledger entry [round, r1, r2, S] of the round, and the round is a
       recording round when all three are non-zero;
     * when the round advances, the rounds (old, new] start with the values the view answers then.
   The run-length prefix sums are tools/sys_safeprice.Shadow (the C13 oracle), not re-derived here.

   For every stakeFarmTokens / claimDualYield the oracle answer is the documented time-weighted average for
   exactly the window farm-staking-proxy asks for: external_contracts_interactions.rs get_lp_tokens_safe_price
   calls the pair's updateAndGetTokensForGivenPositionWithSafePrice = getLpTokensSafePriceByDefaultOffset,
   i.e. rounds (now - min(600, now - oldest recording round), now]  (README: "a default one which at this moment
   is set to 600 rounds"), valued by tools/props/c13.window_expect (floor(liq * floor(sum r / n) / floor(sum S / n))).
   It is stored in o["meas"]["tw"]; the real pair's answer is NOT used for it.
"""
import random
import sys_metastaking as sm
import sys_safeprice as ssp
from sys_metastaking import (WEGLD, RIDE, LPT, NUSERS, OWNER, TRADER, BIG, TK_LP, TK_STK, TK_OTH, TK_LPF, TK_SF, TK_DY,
                             TK_X, CODE, part_of, zlit, log_amount)
from vmx import *

DOC_OFFSET = 600            # dex/pair/README.md: "default one which at this moment is set to 600 rounds"
GAPS = (1, 1, 1, 2, 2, 3, 5, 10, 37, 100, 300, 599, 600, 601, 750, 1000)
PAIR_OPS = ("Swap", "SwapOut", "AddLiq", "RemLiq", "Enter", "Unstake", "Stake", "Claim")
IMPORTS = "Base.Prelude Gen.Params Model.SafePrice Run.MetaTwapRun"


def lp_default_query(liq):
    """the C13 operation the proxy's query corresponds to (constructor QLpDef of Model/SafePrice.v)"""
    return ["Q", "QLpDef", liq, "view"]


class TwapWorld(sm.MetaWorld):
    def __init__(self, cfg):
        self.sh = ssp.Shadow()      # start-of-round (r1, r2, S), run-length encoded, + recording rounds
        self.calls = []             # ledger entries [round, r1, r2, S]: first pair action of each round
        self.acts = 0               # pair actions seen in the current round
        self.opener = None          # kind of the first pair action of the current round
        self.items = []             # chronological TU / TQ items for Run/MetaTwapRun.v
        self.stat = {}
        super().__init__(cfg)

    def bump(self, k, n=1):
        self.stat[k] = self.stat.get(k, 0) + n

    # ------------------------------------------------------------ ledger
    def view3(self):
        r = self.vm.query(self.pair, "getReservesAndTotalSupply")
        if not r.ok or len(r.out) != 3:
            return (0, 0, 0)
        return tuple(from_top_u(x) for x in r.out)

    def advance(self, db, dr, de):
        if dr > 0:
            res = self.view3()
            self.bump("rounds advanced: gap " + ("1" if dr == 1 else "2-10" if dr <= 10 else "11-598" if dr < 599 else "599-601" if dr <= 601 else ">601"))
            super().advance(db, dr, de)
            if self.sh.rec:
                self.sh.add_segment(self.rnd, res)      # rounds (old, new] start with what the pool holds now
            self.acts, self.opener = 0, None
        else:
            super().advance(db, dr, de)

    def note_action(self, kind, pre):
        """a pair action happened in this round; [pre] = the view's answer before it"""
        if self.acts == 0:
            self.opener = kind
            self.bump(f"round opened by {kind}")
        self.acts += 1
        if pre[0] and pre[1] and pre[2] and (not self.sh.rec or self.sh.rec[-1] != self.rnd):
            if not self.sh.rec:
                self.sh.seg0 = self.rnd
                self.sh.seg_end, self.sh.seg_val, self.sh.pre = [], [], []
            self.sh.rec.append(self.rnd)
            self.calls.append([self.rnd, pre[0], pre[1], pre[2]])
            self.items.append(("TU", self.rnd, pre[0], pre[1], pre[2]))

    def oracle(self, liq, cur):
        """documented answer of the default-offset LP safe price for [liq] at the current round:
        dict(win, sums, exp = [first, second] | None, why)"""
        now, old = self.rnd, self.sh.oldest()
        o = dict(now=now, oldest=old, window=None, legacy=0)
        start_cls = None
        if old is not None:
            s = now - min(DOC_OFFSET, now - old)
            o["window"] = [s, now]
            if old <= s < now:
                o["sums"] = self.sh.sums(s, now)
                start_cls = self.sh.lookup_class(s, now)
        from props import c13            # the C13 oracle (documented averages); imported lazily: props.c13 imports this package's siblings
        exp = c13.window_expect(lp_default_query(liq), o)
        tw = dict(win=o["window"], sums=o.get("sums"), oldest=old, nrec=len(self.sh.rec), cur=list(cur),
                  opener=self.opener, acts=self.acts, start_cls=start_cls, exp=None, why=None, stk=None, four=None)
        if exp and exp[0] == "ok":
            x1, x2 = exp[1]
            tw["exp"] = [x1, x2]
            tw["four"] = (self.pool_codes[0], x1, self.pool_codes[1], x2)
            tw["stk"] = self.stk_side(tw["four"])
        else:
            tw["why"] = exp[1] if exp else "undecided"
        return tw

    # ------------------------------------------------------------ execution
    def exec(self, op):
        vm, A = self.vm, self.addr
        k = op[0]
        if k not in PAIR_OPS:
            return super().exec(op)
        pre = self.view3()
        if k == "SwapOut":
            _, d, out = op
            tin, tout = (self.first, self.second) if d == 1 else (self.second, self.first)
            r = vm.call(A[TRADER], self.pair, "swapTokensFixedOutput", [tout, top_u(out)], [(tin, 0, 10 ** 45)])
            self.env_ops += 1
            o, ok = None, r.ok
        elif k == "AddLiq":
            _, a1, a2 = op
            r = vm.call(A[OWNER], self.pair, "addLiquidity", [top_u(1), top_u(1)], [(self.first, 0, a1), (self.second, 0, a2)])
            self.env_ops += 1
            o, ok = None, r.ok
        elif k == "RemLiq":
            r = vm.call(A[OWNER], self.pair, "removeLiquidity", [top_u(1), top_u(1)], [(LPT, 0, op[1])])
            self.env_ops += 1
            o, ok = None, r.ok
        else:
            o = super().exec(op)
            ok = None
        post = self.view3()
        acted = post != pre
        if k in ("SwapOut", "AddLiq", "RemLiq", "Swap", "Enter"):
            self.bump(f"env:{k}:" + ("ok" if acted else "err"))
        opened_before, acts_before = self.opener, self.acts
        if acted:
            self.note_action(k, pre)
        if o is not None and k in ("Stake", "Claim") and o.get("meas") and o["meas"].get("liq"):
            # stake / claim never move the pool: the ledger is the same before and after the call
            tw = self.oracle(o["meas"]["liq"], pre)
            tw["opener"], tw["acts"] = opened_before, acts_before
            o["meas"]["tw"] = tw
            if o["ok"]:
                reg = o["meas"]["dreg"] + (op[2][0][2] if k == "Claim" else 0)
                tw["reg"] = reg
                self.items.append(("TQ", self.rnd, pre[0], pre[1], pre[2], bool(self.cfg["stk_first"]), o["meas"]["liq"], reg))
                tw["item"] = len(self.items) - 1
        return o


# ------------------------------------------------------------------ Coq emission
def coq_items(items):
    out = []
    for it in items:
        if it[0] == "TU":
            out.append("TU " + " ".join(zlit(x) for x in it[1:]))
        else:
            _, now, r1, r2, s, sf, liq, reg = it
            out.append(f"TQ {now} {r1} {r2} {s} {'true' if sf else 'false'} {zlit(liq)} {zlit(reg)}")
    return "(check_twap 0 [] [\n    " + ";\n    ".join(out) + "])"


# ------------------------------------------------------------------ generation
def trader_op(rng, w, focus=False):
    r1, r2, S = w.view3()
    c = rng.random()
    d = rng.choice([1, 2])
    if c < (0.7 if focus else 0.5):
        rout = r2 if d == 1 else r1
        f = rng.choice([2, 2, 3, 5, 10, 10, 100, 10 ** 4, 10 ** 7])
        return ["SwapOut", d, max(1, rout // f + rng.randint(0, 9))]
    if c < 0.82:
        rin = r1 if d == 1 else r2
        return ["Swap", d, max(1, rin // rng.choice([1, 2, 3, 10, 100, 10 ** 4]) + rng.randint(0, 9))]
    if c < 0.92:
        f = rng.choice([1, 2, 10, 100])
        return ["AddLiq", max(1000, r1 // f + rng.randint(0, 999)), max(1000, r2 // f + rng.randint(0, 999))]
    have = w.vm.bal(w.addr[OWNER], LPT)
    return ["RemLiq", max(1, have // rng.choice([3, 5, 10, 100, 10 ** 5]))]


def gen_time(rng):
    return ["Time", rng.choice([1, 1, 3, 10, 100]), rng.choice(GAPS), rng.choice([0, 0, 0, 1, 1, 7, 8])]


def gen_op(rng, w, focus=False):
    if w.acts == 0 and rng.random() < (0.55 if focus else 0.4):
        return trader_op(rng, w, focus)          # the round is opened by a third-party pair action
    if w.acts > 0 and rng.random() < 0.10:
        return gen_time(rng)                     # more rounds than the base generator makes
    op = sm.gen_op(rng, w)
    if op[0] == "Time":
        return gen_time(rng)
    if op[0] == "Swap":
        return trader_op(rng, w, focus)
    return op


def gen_history(seed, nops, focus=False):
    rng = random.Random(seed)
    cfg = sm.gen_cfg(rng)
    w = TwapWorld(cfg)
    trace = []
    try:
        n = 0
        while n < nops:
            op = gen_op(rng, w, focus)
            o = w.exec(op)
            trace.append((op, o))
            if o is not None:
                n += 1
            elif len(trace) > 8 * nops:
                break
        info = dict(items=list(w.items), stat=dict(w.stat), skipped=w.skipped, calls=len(w.calls))
    finally:
        w.close()
    return cfg, trace, info


def replay_history(cfg, ops):
    w = TwapWorld(cfg)
    trace = []
    try:
        for op in ops:
            trace.append((op, w.exec(op)))
    finally:
        w.close()
    return trace
