"""Farm-staking subsystem: real farm-staking (+ energy-factory-mock, permissions-hub) through mxvm.

Model ids: OWNER = 100, users 1..NUSERS, PROXY = 50 (a whitelisted caller standing in for
farm-staking-proxy: stakes virtual amounts, unstakes with staking tokens sent along)."""
import random
from vmx import *

STK = b"STAKE-abcdef"
FARM = b"SFARM-abcdef"
NUSERS = 3
OWNER, PROXY = 100, 50
MAXP = 10000
BLOCKS_IN_YEAR = 31_536_000 // 6
BIG = 10 ** 60


def zlit(n):
    return f"({n})" if n < 0 else str(n)


def dec_sattrs(b: bytes):
    d = Dec(b)
    rps = d.big()
    comp = d.big()
    amt = d.big()
    owner = d.addr() if not d.done() else ZERO_ADDR
    return rps, comp, amt, owner


class StakingWorld:
    def __init__(self, cfg):
        """cfg: dsc, apr, minub"""
        self.cfg = cfg
        vm = self.vm = VM()
        self.addr = {OWNER: user_addr("owner"), PROXY: user_addr("proxycaller")}
        for u in range(1, NUSERS + 1):
            self.addr[u] = user_addr(f"user{u}")
        self.ids = {v: k for k, v in self.addr.items()}
        self.sc = sc_addr("staking1")
        self.efact = sc_addr("efactory")
        self.hub = sc_addr("permhub")
        for a in self.addr.values():
            vm.acct(a)
        self.blk, self.ep = 10, 5
        vm.block(nonce=self.blk, round_=self.blk, epoch=self.ep, ts=6 * self.blk)
        own = self.addr[OWNER]
        assert vm.deploy(own, "energy-factory-mock", [], new_addr=self.efact).ok
        assert vm.deploy(own, "permissions-hub", [], new_addr=self.hub).ok
        r = vm.deploy(own, "farm-staking", [STK, top_u(cfg["dsc"]), top_u(cfg["apr"]), top_u(cfg["minub"]), own], new_addr=self.sc)
        assert r.ok, r
        vm.sset(self.sc, b"farm_token_id", FARM)
        vm.roles(self.sc, FARM, ["ESDTRoleNFTCreate", "ESDTRoleNFTAddQuantity", "ESDTRoleNFTBurn"])
        assert vm.call(own, self.sc, "setEnergyFactoryAddress", [self.efact]).ok
        assert vm.call(own, self.sc, "setPermissionsHubAddress", [self.hub]).ok
        assert vm.call(own, self.sc, "addSCAddressToWhitelist", [self.addr[PROXY]]).ok
        for u in list(range(1, NUSERS + 1)) + [OWNER, PROXY]:
            vm.setbal(self.addr[u], STK, 0, BIG)
        self.first_epoch = self.ep
        self.shadow = dict(rate=0, produce=False, pct=0, factors=False, last=0, state=0, apr=cfg["apr"], minub=cfg["minub"])
        self.pos = {}     # nonce -> (rps, comp, amt, owner id) of position tokens
        self.ub = {}      # unbond nonce -> unlock epoch
        self.virt = 0     # ghost: virtual principal staked through the proxy
        self.donated = 0
        self.holders = list(range(1, NUSERS + 1)) + [PROXY]
        self.last = self.observe()

    def close(self):
        self.vm.close()

    def q(self, f, args=()):
        r = self.vm.query(self.sc, f, args)
        assert r.ok, (f, r)
        return from_top_u(r.out[0]) if r.out else 0

    def week(self):
        return (self.ep - self.first_epoch) // 7 + 1

    def pools(self):
        tot = self.q("getUndistributedBoostedRewards")
        for w in range(1, self.week() + 1):
            tot += self.q("getAccumulatedRewardsForWeek", [top_u(w)])
            tot += self.q("getRemainingBoostedRewardsToDistribute", [top_u(w)])
        return tot

    def observe(self):
        vm = self.vm
        o = dict(supply=self.q("getFarmTokenSupply"), reserve=self.q("getRewardReserve"), rps=self.q("getRewardPerShare"),
                 last=self.q("getLastRewardBlockNonce"), cap=self.q("getRewardCapacity"), acc=self.q("getAccumulatedRewards"),
                 pool=self.pools(), bal=vm.bal(self.sc, STK), state=self.q("getState"))
        held, ubheld = {}, {}
        for u in self.holders:
            for (t, n, a) in vm.tokens(self.addr[u]):
                if t != FARM:
                    continue
                if n in self.ub:
                    ubheld[(n, u)] = a
                else:
                    held[(n, u)] = a
        o["held"], o["ubheld"] = held, ubheld
        o["ubtot"] = sum(ubheld.values())
        o["utot"] = {u: self.q("getUserTotalFarmPosition", [self.addr[u]]) for u in self.holders}
        return o

    def pos_attrs(self, n):
        for u in self.holders:
            b = self.vm.attrs(self.addr[u], FARM, n)
            if b:
                rps, comp, amt, owner = dec_sattrs(b)
                return (rps, comp, amt, self.ids.get(owner, -1))
        return None

    def expected_total(self, blk):
        sh, pre = self.shadow, self.last
        if blk <= sh["last"]:
            return 0
        unb = sh["rate"] * (blk - sh["last"]) if sh["produce"] else 0
        aprb = (pre["supply"] * sh["apr"] // MAXP // BLOCKS_IN_YEAR) * (blk - sh["last"])
        return min(unb, aprb, pre["cap"] - pre["acc"])

    def expected_cut(self, blk):
        sh = self.shadow
        tot = self.expected_total(blk)
        if sh["pct"] == 0 or not sh["factors"]:
            return 0
        return tot * sh["pct"] // MAXP

    def exec(self, op):
        vm, A = self.vm, self.addr
        k = op[0]
        if k == "Time":
            self.blk += op[1]
            self.ep += op[2]
            vm.block(nonce=self.blk, round_=self.blk, epoch=self.ep, ts=6 * self.blk)
            return None
        if k == "Energy":
            _, u, en, locked = op
            assert vm.call(A[OWNER], self.efact, "setUserEnergy", [A[u], top_u(en), top_u(locked)]).ok
            return None
        if k == "Upgrade":
            # contract upgrade by the owner: must change nothing on a configured farm (environment step for the models)
            r = vm.call(A[OWNER], self.sc, "upgrade", [])
            assert r.ok, r
            return None
        pre_pool = self.last["pool"]
        pre_cfg = dict(self.shadow)
        pays = lambda ps: [(FARM, n, x) for (n, x) in ps]
        outs, b, settles, new_pos, new_ub = [], 0, False, None, None
        if k == "Stake":
            _, c, amt, adds = op
            r = vm.call(A[c], self.sc, "stakeFarm", [], [(STK, 0, amt)] + pays(adds))
            if r.ok:
                p0, p1 = dec_payment(r.out[0]), dec_payment(r.out[1])
                outs, b, new_pos = [p0[1], p0[2], p1[2]], p1[2], p0[1]
            settles = True
        elif k == "StakeProxy":
            _, u, amt, adds = op
            r = vm.call(A[PROXY], self.sc, "stakeFarmThroughProxy", [top_u(amt), A[u]], pays(adds))
            if r.ok:
                p0, p1 = dec_payment(r.out[0]), dec_payment(r.out[1])
                outs, b, new_pos = [p0[1], p0[2], p1[2]], p1[2], p0[1]
            settles = True
        elif k == "Claim":
            _, c, p = op
            r = vm.call(A[c], self.sc, "claimRewards", [], pays([p]))
            if r.ok:
                p0, p1 = dec_payment(r.out[0]), dec_payment(r.out[1])
                outs, new_pos = [p0[1], p0[2], p1[2]], p0[1]
            settles = True
        elif k == "ClaimNewValue":
            _, u, p, newv = op
            r = vm.call(A[PROXY], self.sc, "claimRewardsWithNewValue", [top_u(newv), A[u]], pays([p]))
            if r.ok:
                p0, p1 = dec_payment(r.out[0]), dec_payment(r.out[1])
                outs, new_pos = [p0[1], p0[2], p1[2]], p0[1]
            settles = True
        elif k == "Compound":
            _, c, first, adds = op
            r = vm.call(A[c], self.sc, "compoundRewards", [], pays([first] + adds))
            if r.ok:
                p0 = dec_payment(r.out[0])
                outs, new_pos = [p0[1], p0[2]], p0[1]
            settles = True
        elif k == "Unstake":
            _, c, p = op
            r = vm.call(A[c], self.sc, "unstakeFarm", [], pays([p]))
            if r.ok:
                p0, p1 = dec_payment(r.out[0]), dec_payment(r.out[1])
                outs, new_ub = [p0[1], p0[2], p1[2]], p0[1]
            settles = True
        elif k == "UnstakeProxy":
            _, u, p, t = op
            r = vm.call(A[PROXY], self.sc, "unstakeFarmThroughProxy", [A[u]], [(STK, 0, t)] + pays([p]))
            if r.ok:
                p0, p1 = dec_payment(r.out[0]), dec_payment(r.out[1])
                outs, new_ub = [p0[1], p0[2], p1[2]], p0[1]
            settles = True
        elif k == "Unbond":
            _, c, n, amt = op
            r = vm.call(A[c], self.sc, "unbondFarm", [], [(FARM, n, amt)])
            if r.ok:
                outs = [dec_payment(r.out[0])[2]]
        elif k == "Merge":
            _, c, ps = op
            r = vm.call(A[c], self.sc, "mergeFarmTokens", [], pays(ps))
            if r.ok:
                p0, p1 = dec_payment(r.out[0]), dec_payment(r.out[1])
                outs, b, new_pos = [p0[1], p1[2]], p1[2], p0[1]
        elif k == "ClaimBoosted":
            _, c = op
            r = vm.call(A[c], self.sc, "claimBoostedRewards", [])
            if r.ok:
                p0 = dec_payment(r.out[0])
                outs, b = [p0[2]], p0[2]
            settles = True
        elif k == "Transfer":
            _, n, s, d, amt = op
            r = vm.transfer(A[s], A[d], [(FARM, n, amt)])
        elif k == "TopUp":
            r = vm.call(A[op[1]], self.sc, "topUpRewards", [], [(STK, 0, op[2])])
        elif k == "Withdraw":
            r = vm.call(A[op[1]], self.sc, "withdrawRewards", [top_u(op[2])])
            settles = True
        elif k == "SetRate":
            r = vm.call(A[op[1]], self.sc, "setPerBlockRewardAmount", [top_u(op[2])])
            settles = True
        elif k == "Start":
            r = vm.call(A[op[1]], self.sc, "startProduceRewards", [])
        elif k == "End":
            r = vm.call(A[op[1]], self.sc, "endProduceRewards", [])
            settles = True
        elif k == "SetApr":
            r = vm.call(A[op[1]], self.sc, "setMaxApr", [top_u(op[2])])
            settles = True
        elif k == "SetMinUnbond":
            r = vm.call(A[op[1]], self.sc, "setMinUnbondEpochs", [top_u(op[2])])
        elif k == "SetPct":
            r = vm.call(A[op[1]], self.sc, "setBoostedYieldsRewardsPercentage", [top_u(op[2])])
            settles = True
        elif k == "SetFactors":
            r = vm.call(A[op[1]], self.sc, "setBoostedYieldsFactors", [top_u(x) for x in op[2]])
        elif k == "SetState":
            r = vm.call(A[op[1]], self.sc, "resume" if op[2] == 1 else "pause", [])
        elif k == "Donate":
            r = vm.transfer(A[OWNER], self.sc, [(STK, 0, op[1])])
        else:
            raise ValueError(k)
        cut = self.expected_cut(self.blk) if (settles and r.ok) else 0
        total = self.expected_total(self.blk) if (settles and r.ok) else 0
        if r.ok and new_ub is not None:
            self.ub[new_ub] = None
        o = self.observe()
        o["ok"], o["msg"], o["outs"] = r.ok, r.msg, outs
        if r.ok and k in ("Claim", "ClaimNewValue", "Unstake", "UnstakeProxy", "Compound"):
            b = pre_pool + cut - o["pool"]
        o["b"] = b if r.ok else 0
        o["blk"], o["ep"] = self.blk, self.ep
        o["exp_total"] = total
        o["new_ub"] = {}
        if r.ok and new_ub is not None:
            holder = A[PROXY] if k == "UnstakeProxy" else A[op[1]]
            at = vm.attrs(holder, FARM, new_ub)
            self.ub[new_ub] = from_top_u(at)
            o["new_ub"][new_ub] = self.ub[new_ub]
        o["new_pos"] = {}
        if r.ok and new_pos is not None:
            o["new_pos"][new_pos] = self.pos_attrs(new_pos)
            self.pos[new_pos] = o["new_pos"][new_pos]
        if r.ok:
            sh = self.shadow
            if settles and self.blk > sh["last"]:
                sh["last"] = self.blk
            if k == "SetRate": sh["rate"] = op[2]
            elif k == "Start": sh["produce"], sh["last"] = True, self.blk
            elif k == "End": sh["produce"] = False
            elif k == "SetApr": sh["apr"] = op[2]
            elif k == "SetMinUnbond": sh["minub"] = op[2]
            elif k == "SetPct": sh["pct"] = op[2]
            elif k == "SetFactors": sh["factors"] = True
            elif k == "SetState": sh["state"] = op[2]
            elif k == "Donate": self.donated += op[1]
            elif k == "StakeProxy": self.virt += op[2]
            elif k == "UnstakeProxy": self.virt -= op[2][1]
            elif k == "ClaimNewValue": self.virt += op[3] - op[2][1]
        o["virt"], o["donated"] = self.virt, self.donated
        o["pos"] = dict(self.pos)
        o["ub"] = dict(self.ub)
        o["cfg"] = dict(self.shadow)
        o["pre_cfg"] = pre_cfg
        o["settles"] = settles
        o["pre"] = self.last
        self.last = {x: o[x] for x in ("supply", "reserve", "rps", "last", "cap", "acc", "pool", "bal", "state", "held", "ubheld", "ubtot", "utot", "pos", "ub")}
        return o


# ------------------------------------------------------------------ Coq emission
def psum(ps):
    return sum(x for _, x in ps)


def coq_op(op, o):
    k = op[0]
    blk, ep, b = o["blk"], o["ep"], o["b"]
    r = o["outs"][-1] if (o["ok"] and o["outs"]) else 0
    if k == "Stake":
        return f"SStake {blk} {ep} {op[1]} {op[2]} {psum(op[3])} {zlit(b)}"
    if k == "StakeProxy":
        return f"SStakeProxy {blk} {ep} {op[2]} {psum(op[3])} {zlit(b)}"
    if k == "Claim":
        return f"SClaim {blk} {ep} {op[1]} {op[2][1]} {zlit(r)} {zlit(b)}"
    if k == "ClaimNewValue":
        return f"SClaimNewValue {blk} {ep} {op[2][1]} {op[3]} {zlit(r)} {zlit(b)}"
    if k == "Compound":
        rr = (o["outs"][1] - op[2][1] - psum(op[3])) if o["ok"] else 0
        return f"SCompound {blk} {ep} {op[1]} {op[2][1]} {psum(op[3])} {zlit(rr)} {zlit(b)}"
    if k == "Unstake":
        return f"SUnstake {blk} {ep} {op[1]} {op[2][1]} {zlit(r)} {zlit(b)}"
    if k == "UnstakeProxy":
        return f"SUnstakeProxy {blk} {ep} {op[2][1]} {op[3]} {zlit(r)} {zlit(b)}"
    if k == "Unbond":
        return f"SUnbond {ep} {op[1]} {op[2]} {op[3]}"
    if k == "Merge":
        return f"SMerge {blk} {ep} {op[1]} {zlit(b)}"
    if k == "ClaimBoosted":
        return f"SClaimBoosted {blk} {ep} {op[1]} {o['pre']['utot'].get(op[1], 0)} {zlit(b)}"
    if k == "TopUp":
        return f"STopUp {op[1]} {op[2]}"
    if k == "Withdraw":
        return f"SWithdraw {blk} {op[1]} {op[2]}"
    if k == "SetRate":
        return f"SSetRate {blk} {op[1]} {op[2]}"
    if k == "Start":
        return f"SStart {blk} {op[1]}"
    if k == "End":
        return f"SEnd {blk} {op[1]}"
    if k == "SetApr":
        return f"SSetApr {blk} {op[1]} {op[2]}"
    if k == "SetMinUnbond":
        return f"SSetMinUnbond {op[1]} {op[2]}"
    if k == "SetPct":
        return f"SSetPct {blk} {op[1]} {op[2]}"
    if k == "SetFactors":
        return f"SSetFactors {op[1]}"
    if k == "SetState":
        return f"SSetState {op[1]} {op[2]}"
    if k == "Donate":
        return f"SDonate {op[1]}"
    raise ValueError(k)


def coq_obs(op, o):
    k = op[0]
    outs = list(o["outs"])
    if k == "Merge" and o["ok"]:
        outs = [outs[0], outs[1]]
    outs_s = "[" + "; ".join(zlit(x) for x in outs) + "]"
    ub = "[" + "; ".join(f"({n}, {e})" for n, e in o["new_ub"].items()) + "]"
    return (f"mkSObs {'true' if o['ok'] else 'false'} {outs_s} {o['supply']} {o['reserve']} {o['rps']} {o['last']} "
            f"{o['cap']} {o['acc']} {o['pool']} {o['bal']} {o['ubtot']} {ub}")


def coq_history(cfg, trace):
    items = ";\n    ".join(f"({coq_op(op, o)}, {coq_obs(op, o)})" for op, o in trace if op[0] != "Transfer")
    return f"(check_trace (init_stk {cfg['dsc']} {cfg['apr']} {cfg['minub']}) 0 [\n    {items}])"


# ------------------------------------------------------------------ generation
def log_amount(rng, hi=10 ** 24):
    e = rng.uniform(0, len(str(hi)) - 1)
    return max(1, int(10 ** e) + rng.randint(0, 9))


def gen_cfg(rng):
    return dict(dsc=rng.choice([1, 10 ** 6, 10 ** 12, 10 ** 18]),
                apr=rng.choice([1, 500, 2500, 10000, 10 ** 6, 10 ** 12]),
                minub=rng.choice([0, 1, 3, 10, 30]), boost=rng.random() < 0.5)


def positions_of(w, u):
    return [(n, v) for (n, h), v in w.last["held"].items() if h == u and v > 0]


def gen_op(rng, w):
    sh = w.shadow
    _pend = w.__dict__.setdefault("pending", [])
    if _pend:
        return _pend.pop(0)
    users = list(range(1, NUSERS + 1))
    c = rng.choice(users)
    roll = rng.random()
    if sh["rate"] == 0 and roll < 0.7:
        return ["SetRate", OWNER, rng.choice([1, 1000, 10 ** 6, 10 ** 15, log_amount(rng)])]
    if sh["state"] != 1 and roll < 0.7:
        return ["SetState", OWNER, 1]
    if w.last["cap"] == 0 and roll < 0.7:
        return ["TopUp", OWNER, rng.choice([1, 1000, 10 ** 9, 10 ** 18, log_amount(rng)])]
    if sh["rate"] != 0 and not sh["produce"] and roll < 0.6:
        # production was stopped (or never started): let an idle gap pass before the restart about a third of the
        # time, so that "restart is not retroactive" is exercised with blocks between endProduceRewards and start
        if roll < 0.2 and sh.get("last", 0) >= w.blk:
            return ["Time", rng.choice([1, 10, 100]), rng.choice([7, 8, 14, 1])]
        return ["Start", OWNER]
    if w.cfg.get("boost"):
        st = w.__dict__.setdefault("boost_stage", 0)
        if st == 0:
            w.boost_stage = 1
            return ["SetPct", OWNER, rng.choice([2500, 1, 5000, 10000])]
        if st == 1:
            w.boost_stage = 2
            return ["SetFactors", OWNER, [rng.choice([1, 2, 10]), rng.choice([0, 1, 3]), rng.choice([1, 2]), rng.choice([1, 10]), rng.choice([1, 100])]]
        if st in (2, 3, 4):
            w.boost_stage = st + 1
            return ["Energy", st - 1, log_amount(rng, 10 ** 9) + 100, log_amount(rng, 10 ** 6) + 10]
        if roll < 0.08:
            return ["Time", rng.choice([1, 10, 100]), rng.choice([7, 8, 14, 1])]
    if roll < 0.13:
        return ["Time", rng.choice([1, 1, 3, 10, 100, 10000, 10 ** 6]), rng.choice([0, 0, 1, 1, 3, 7, 10, 30, 31])]
    _paid = max(0, w.last["acc"] - w.last["reserve"])
    if _paid > 0 and rng.random() < 0.03:
        # the admin tries to withdraw capacity that was already accrued AND paid out (only un-accrued capacity may leave)
        _rem = max(0, w.last["cap"] - w.last["acc"])
        return ["Withdraw", OWNER, _rem + rng.choice([1, _paid, max(1, _paid // 2)])]
    if roll < 0.22:
        kind = rng.random()
        who = rng.choice([OWNER] * 6 + users)
        rem = max(0, w.last["cap"] - w.last["acc"])
        if kind < 0.15:
            return ["SetRate", who, rng.choice([0, 1, 1000, 10 ** 6, log_amount(rng)])]
        if kind < 0.22:
            return ["End", who]
        if kind < 0.4:
            return ["TopUp", who, log_amount(rng, 10 ** 18)]
        if kind < 0.6:
            paid = max(0, w.last["acc"] - w.last["reserve"])        # accrued and already paid out: must NOT be withdrawable
            return ["Withdraw", who, rng.choice([0, 1, rem, rem + 1, rem // 2, rng.randint(0, rem + 2),
                                                 rem + max(1, paid), rem + max(1, paid // 2), max(0, rem - 1)])]
        if kind < 0.72:
            cur = max(1, sh["apr"])
            val = rng.choice([0, 1, 500, 10000, 10 ** 9, max(1, cur // 2), cur * 2, cur + 1, cur * 10, max(1, cur // 10)])
            if who == OWNER and rng.random() < 0.6:
                # let blocks pass first: the elapsed blocks must be settled under the OLD cap (never retroactive)
                _pend.append(["SetApr", OWNER, val])
                return ["Time", rng.choice([1, 10, 100, 1000]), 0]
            return ["SetApr", who, val]
        if kind < 0.8:
            return ["SetMinUnbond", who, rng.choice([0, 1, 5, 30, 31])]
        if kind < 0.86:
            return ["SetState", who, rng.choice([0, 1, 1])]
        if kind < 0.92:
            return ["SetPct", who, rng.choice([0, 2500, 10000, 10001])]
        return ["Donate", log_amount(rng, 10 ** 9)]
    # unbond attempts
    ubs = [(n, u, v) for (n, u), v in w.last["ubheld"].items() if v > 0]
    if ubs and sh["minub"] > 0 and not w.__dict__.get("minub_zeroed") and rng.random() < 0.05:
        # the admin sets the unbond period to 0 while unbond tokens are outstanding: a token keeps ITS unlock epoch
        n, u, v = rng.choice(ubs)
        if u != PROXY:
            w.minub_zeroed = True
            _pend.append(["Unbond", u, n, v])
            return ["SetMinUnbond", OWNER, 0]
    if ubs and roll < 0.34:
        n, u, v = rng.choice(ubs)
        return ["Unbond", u, n, v if rng.random() < 0.6 else rng.randint(1, v)]
    mine = positions_of(w, c)
    pp = positions_of(w, PROXY)
    part = lambda v: v if rng.random() < 0.55 else rng.randint(1, v)
    if roll < 0.40 and (pp or rng.random() < 0.6):
        kind = rng.random()
        if kind < 0.5 or not pp:
            adds = []
            if pp and rng.random() < 0.3:
                n, v = rng.choice(pp)
                adds = [(n, part(v))]
            return ["StakeProxy", c, rng.choice([1, rng.randint(1, 1000), log_amount(rng)]), adds]
        n, v = rng.choice(pp)
        if kind < 0.75:
            x = part(v)
            return ["UnstakeProxy", c, (n, x), rng.choice([x, max(1, x // 2), x + rng.randint(0, 5), log_amount(rng, max(10, x * 2))])]
        x = part(v)
        return ["ClaimNewValue", c, (n, x), rng.choice([x, x + 1, max(0, x - 1), x * 2, log_amount(rng, max(10, x * 2))])]
    if roll < 0.58 or not mine:
        amt = rng.choice([1, 2, rng.randint(1, 100), log_amount(rng), log_amount(rng)])
        adds = []
        if mine and rng.random() < 0.3:
            for (n, v) in rng.sample(mine, min(len(mine), rng.randint(1, 2))):
                adds.append((n, part(v)))
        return ["Stake", c, amt, adds]
    n, v = rng.choice(mine)
    if roll < 0.70:
        return ["Claim", c, (n, part(v))]
    if roll < 0.82:
        return ["Unstake", c, (n, part(v))]
    if roll < 0.87:
        sel = rng.sample(mine, min(len(mine), rng.choice([1, 2, 3])))
        return ["Merge", c, [(n2, part(v2)) for n2, v2 in sel]]
    if roll < 0.91:
        return ["ClaimBoosted", c]
    if roll < 0.95:
        return ["Transfer", n, c, rng.choice([u for u in users if u != c]), part(v)]
    sel = rng.sample(mine, min(len(mine), rng.choice([1, 1, 2])))
    ps = [(n2, part(v2)) for n2, v2 in sel]
    return ["Compound", c, ps[0], ps[1:]]


def gen_history(seed, nops):
    rng = random.Random(seed)
    cfg = gen_cfg(rng)
    w = StakingWorld(cfg)
    trace = []
    try:
        for _ in range(nops):
            op = gen_op(rng, w)
            trace.append((op, w.exec(op)))
    finally:
        w.close()
    return cfg, trace


def replay_history(cfg, ops):
    w = StakingWorld(cfg)
    trace = []
    try:
        for op in ops:
            trace.append((op, w.exec(op)))
    finally:
        w.close()
    return trace
