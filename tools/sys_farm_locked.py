"""Farm-with-locked-rewards subsystem (C05-C07, second world): the real dex/farm-with-locked-rewards
with the real energy-factory (it creates the locked reward tokens through `lockVirtual` and is the
farm's energy source) and permissions-hub, deployed the way
dex/farm-with-locked-rewards/tests/farm_with_locked_rewards_setup does (init arguments, roles,
whitelists through endpoints; token-id mappers that need the ESDT system SC through vm.sset).

Same operation vocabulary and observation dictionary as sys_farm.FarmWorld (this class extends it), with
  ["Energy", u, amount, k]          user u locks `amount` base tokens with lock option k in the energy factory
                                    (environment: exec returns None; energy also decays with the epochs and
                                    grows with every locked reward received)
  ["SetLockEpochs", who, epochs]    setLockEpochs on the farm (owner only; the value is NOT validated by the farm)
  ["Compound", ...]                 the contract has no compoundRewards endpoint: always fails
Differences of the contract from dex/farm that matter here:
  * rewards are never minted (NoMintWrapper::mint_rewards is a no-op): `reserve` is bookkeeping only and the
    farm's balance of the reward token changes only through plain transfers to it (and, when the farming
    token IS the reward token, through principal);
  * every reward payment (base + boosted on claim / exit, boosted on enter / merge / claimBoosted) reaches the
    caller as LOCKED tokens created by the energy factory: original token = reward token, unlock epoch =
    start_of_month(current epoch + lockEpochs), and the receiver's energy grows by amount * (unlock - now).
Additional observables per operation:
  recv       {user: [(locked nonce, amount, original token is the reward token, original nonce, unlock epoch)]}
  locked_recv  total LOCKED amount users received in this operation;  farm_locked  LOCKED held by the farm itself
  lockep     the farm's lockEpochs (view getLockEpochs);   energy / pre_energy  {user: (amount, total locked)}
  gen, paid  harness ghosts: sum of rate * blocks over the observed settlements; sum of locked rewards received
"""
import os, random, re
import sys_farm as sf
from sys_farm import (FarmWorld, REW, LPF, FARM, NUSERS, OWNER, MAXP, BIG, zlit, log_amount, positions_of, pl,
                      coq_pairs)
from vmx import *

LOCKED = b"LOCKED-abcdef"
LEGACY = b"LEGACY-abcdef"
LOCK_OPTIONS = ((360, 4000), (720, 6000), (1440, 8000))      # the repository test's LOCK_OPTIONS / PENALTY_PERCENTAGES
USER_OPS = ("Enter", "Claim", "Compound", "Exit", "Merge", "ClaimBoosted")
REWARD_POS = {"Enter": 2, "Claim": 2, "Exit": 1, "Merge": 2, "ClaimBoosted": 0}


def param(name, default=None):
    """a constant of the repository as extracted into coq/Gen/Params.v"""
    p = os.path.join(os.path.dirname(os.path.dirname(os.path.abspath(__file__))), "coq", "Gen", "Params.v")
    m = re.search(r"Definition\s+%s\s*:\s*Z\s*:=\s*(\d+)\s*\." % re.escape(name), open(p).read())
    if not m:
        if default is None:
            raise KeyError(name)
        return default
    return int(m.group(1))


EPOCHS_PER_MONTH = param("EPOCHS_PER_MONTH")


def unlock_epoch(ep, lock_epochs):
    """energy-factory lockVirtual: unlock_epoch_to_start_of_month(current_epoch + lock_epochs)"""
    e = ep + lock_epochs
    return e - e % EPOCHS_PER_MONTH


def dec_locked_attrs(b):
    d = Dec(b)
    tok, n, e = d.bytes_(), d.u64(), d.u64()
    assert d.done()
    return tok, n, e


def dec_energy(b):
    d = Dec(b)
    r = (d.bigint(), d.u64(), d.big())
    assert d.done()
    return r


class LockedFarmWorld(FarmWorld):
    CODE = "farm-with-locked-rewards"

    def __init__(self, cfg):
        """cfg: dsc, same(bool), boost(bool), lockep (initial lockEpochs; one of LOCK_OPTIONS)"""
        self.cfg = cfg
        vm = self.vm = VM()
        self.addr = {OWNER: user_addr("owner")}
        for u in range(1, NUSERS + 1):
            self.addr[u] = user_addr(f"user{u}")
        self.ids = {v: k for k, v in self.addr.items()}
        self.farm = sc_addr("lfarm1")
        self.efact = sc_addr("efactory")
        self.hub = sc_addr("permhub")
        for a in self.addr.values():
            vm.acct(a)
        self.blk, self.ep = 10, 5
        vm.block(nonce=self.blk, round_=self.blk, epoch=self.ep, ts=6 * self.blk)
        own = self.addr[OWNER]
        self.rew = REW
        self.farming = REW if cfg["same"] else LPF
        # --- energy factory: base asset = the farm's reward token
        args = [REW, LEGACY, self.efact, top_u(0)]
        for e, p in LOCK_OPTIONS:
            args += [top_u(e), top_u(p)]
        r = vm.deploy(own, "energy-factory", args, new_addr=self.efact)
        assert r.ok, r
        vm.sset(self.efact, b"lockedTokenId", LOCKED)
        vm.roles(self.efact, REW, ["ESDTRoleLocalMint", "ESDTRoleLocalBurn"])
        vm.roles(self.efact, LOCKED, ["ESDTRoleNFTCreate", "ESDTRoleNFTAddQuantity", "ESDTRoleNFTBurn", "ESDTTransferRole"])
        assert vm.call(own, self.efact, "unpause").ok
        r = vm.deploy(own, "permissions-hub", [], new_addr=self.hub)
        assert r.ok, r
        # --- the farm: pair address zero (the early-exit penalty is burned locally), no mint role on the reward token
        r = vm.deploy(own, self.CODE, [self.rew, self.farming, top_u(cfg["dsc"]), ZERO_ADDR, own], new_addr=self.farm)
        assert r.ok, r
        vm.sset(self.farm, b"farm_token_id", FARM)
        vm.roles(self.farm, FARM, ["ESDTRoleNFTCreate", "ESDTRoleNFTAddQuantity", "ESDTRoleNFTBurn"])
        vm.roles(self.farm, self.farming, ["ESDTRoleLocalBurn"])
        for f, a in (("setLockingScAddress", [self.efact]), ("setLockEpochs", [top_u(cfg["lockep"])]),
                     ("setEnergyFactoryAddress", [self.efact]), ("setPermissionsHubAddress", [self.hub])):
            r = vm.call(own, self.farm, f, a)
            assert r.ok, (f, r)
        assert vm.call(own, self.efact, "addSCAddressToWhitelist", [self.farm]).ok
        for u in range(1, NUSERS + 1):
            vm.setbal(self.addr[u], self.farming, 0, BIG)
            vm.setbal(self.addr[u], self.rew, 0, BIG)
        vm.setbal(own, self.rew, 0, BIG)
        self.first_epoch = self.ep
        self.nonces = []
        self.attr = {}
        self.donated = 0
        self.gen = 0
        self.paid = 0
        self.lk_attr = {}           # locked-token nonce -> decoded attributes, as read from the real token
        self.acted = {}             # user -> week of the last successful farm operation (generator bias only)
        self.shadow = dict(rate=0, produce=False, pct=0, factors=False, last=0, state=0, minep=3, pen=100,
                           lockep=cfg["lockep"])
        self.last = self.observe()
        self.last["attrs"] = {}
        self.last_locked = self.locked_holdings()

    # ------------------------------------------------------------ observation
    def locked_holdings(self):
        h = {}
        for u in range(1, NUSERS + 1):
            h[u] = {n: a for (t, n, a) in self.vm.tokens(self.addr[u]) if t == LOCKED}
        return h

    def energies(self):
        out = {}
        for u in range(1, NUSERS + 1):
            r = self.vm.query(self.efact, "getEnergyEntryForUser", [self.addr[u]])
            assert r.ok, r
            amt, _, tot = dec_energy(r.out[0])
            out[u] = (amt, tot)
        return out

    def observe(self):
        o = FarmWorld.observe(self)
        o["farm_locked"] = sum(a for (t, n, a) in self.vm.tokens(self.farm) if t == LOCKED)
        r = self.vm.query(self.farm, "getLockEpochs")
        o["lockep"] = from_top_u(r.out[0]) if r.ok and r.out else 0
        return o

    def _tail(self, o, pre_locked, pre_energy):
        """locked-farm observables of one executed operation"""
        now = self.locked_holdings()
        recv, tot = {}, 0
        for u in range(1, NUSERS + 1):
            for n, a in now[u].items():
                d = a - pre_locked[u].get(n, 0)
                if d > 0:
                    if n not in self.lk_attr:
                        tok, on, ue = dec_locked_attrs(self.vm.attrs(self.addr[u], LOCKED, n))
                        self.lk_attr[n] = (tok == self.rew, on, ue)
                    recv.setdefault(u, []).append((n, d) + self.lk_attr[n])
                    tot += d
                elif d < 0:
                    recv.setdefault(u, []).append((n, d, False, 0, 0))
            for n, a in pre_locked[u].items():
                if n not in now[u] and a > 0:
                    recv.setdefault(u, []).append((n, -a, False, 0, 0))
        self.last_locked = now
        o["recv"], o["locked_recv"] = recv, tot
        o["pre_energy"], o["energy"] = pre_energy, self.energies()
        # harness ghosts: what the observed settlements generated / what was observed to be paid
        if o["ok"] and o["settles"]:
            cp, pre = o["pre_cfg"], o["pre"]
            if cp["produce"] and o["blk"] > pre["last"]:
                self.gen += cp["rate"] * (o["blk"] - pre["last"])
        self.paid += tot
        o["gen"], o["paid"] = self.gen, self.paid
        self.last["farm_locked"], self.last["lockep"] = o["farm_locked"], o["lockep"]
        return o

    # ------------------------------------------------------------ execution
    def exec(self, op):
        vm, A, k = self.vm, self.addr, op[0]
        if k in ("Time", "Upgrade"):
            return FarmWorld.exec(self, op)
        if k == "Energy":
            _, u, amt, opt = op
            r = vm.call(A[u], self.efact, "lockTokens", [top_u(LOCK_OPTIONS[opt][0])], [(self.rew, 0, amt)])
            assert r.ok, r
            self.last_locked = self.locked_holdings()
            return None
        pre_locked, pre_energy = self.last_locked, self.energies()
        if k == "SetLockEpochs":
            pre_cfg = dict(self.shadow)
            r = vm.call(A[op[1]], self.farm, "setLockEpochs", [top_u(op[2])])
            o = self.observe()
            o.update(ok=r.ok, msg=r.msg, outs=[], b=0, blk=self.blk, ep=self.ep, new_attrs={}, attrs=dict(self.attr),
                     donated=self.donated, cfg=dict(self.shadow), pre=self.last, pre_cfg=pre_cfg, settles=False)
            if r.ok:
                self.shadow["lockep"] = op[2]
            self.last = {x: o[x] for x in ("supply", "reserve", "rps", "last", "bal_rew", "bal_farming", "pool", "state",
                                           "utot", "held", "farm_held", "attrs")}
            return self._tail(o, pre_locked, pre_energy)
        o = FarmWorld.exec(self, op)
        if o["ok"] and k in USER_OPS:
            self.acted[op[1]] = self.week()
        return self._tail(o, pre_locked, pre_energy)


# ------------------------------------------------------------------ Coq emission
def coq_op(op, o):
    if op[0] == "SetLockEpochs":
        return f"LSetLockEpochs {op[1]} {op[2]}"
    return f"LF ({sf.coq_op(op, o)})"


def coq_recv(o):
    items = []
    for u in sorted(o["recv"]):
        for (n, a, is_rew, on, ue) in o["recv"][u]:
            items.append(f"({u}, ({zlit(a)}, {ue if (is_rew and on == 0) else -1}))")
    return "[" + "; ".join(items) + "]"


def coq_obs(o):
    return f"mkLObs ({sf.coq_obs(o)}) {coq_recv(o)} {o['farm_locked']} {o['lockep']}"


def coq_history(cfg, trace):
    items = ";\n    ".join(f"({coq_op(op, o)}, {coq_obs(o)})" for op, o in trace)
    opts = "[" + "; ".join(str(e) for e, _ in LOCK_OPTIONS) + "]"
    return (f"(lcheck_trace (init_locked {cfg['dsc']} {'true' if cfg['same'] else 'false'} {opts} {cfg['lockep']}) 0 [\n"
            f"    {items}])")


# ------------------------------------------------------------------ generation
def gen_cfg(rng):
    return dict(dsc=rng.choice([1, 10, 10 ** 6, 10 ** 12, 10 ** 12, 10 ** 18]), same=rng.random() < 0.3,
                boost=rng.random() < 0.6, lockep=rng.choice([360, 360, 720, 1440]))


def gen_factors(rng):
    return [rng.choice([1, 2, 10]), rng.choice([0, 1, 3]), rng.choice([1, 2]), rng.choice([1, 10]), rng.choice([1, 100])]


def gen_op(rng, w):
    sh = w.shadow
    _pend = w.__dict__.setdefault("pending", [])
    if _pend:
        return _pend.pop(0)
    users = list(range(1, NUSERS + 1))
    c = rng.choice(users)
    roll = rng.random()
    listed = [e for e, _ in LOCK_OPTIONS]
    # bring-up
    if sh["rate"] == 0 and roll < 0.7:
        return ["SetRate", OWNER, rng.choice([1, 1000, 10 ** 6, 10 ** 18, log_amount(rng)])]
    if sh["state"] != 1 and roll < 0.7:
        return ["SetState", OWNER, 1]
    if sh["rate"] != 0 and not sh["produce"] and roll < 0.6:
        # production was stopped (or never started): let an idle gap pass before the restart about a third of the
        # time, so that "restart is not retroactive" is exercised with blocks between endProduceRewards and start
        if roll < 0.2 and sh.get("last", 0) >= w.blk:
            return ["Time", rng.choice([1, 3, 10, 100]), rng.choice([7, 7, 8, 14, 1, 35])]
        return ["Start", OWNER]
    if sh["lockep"] not in listed and roll < 0.3:
        return ["SetLockEpochs", OWNER, rng.choice(listed)]
    if w.cfg.get("boost"):
        st = w.__dict__.setdefault("boost_stage", 0)
        if st == 0:
            w.boost_stage = 1
            return ["SetPct", OWNER, rng.choice([2500, 2500, 1, 5000, 9999, 10000])]
        if st == 1:
            w.boost_stage = 2
            return ["SetFactors", OWNER, gen_factors(rng)]
        if st in (2, 3, 4):
            w.boost_stage = st + 1
            return ["Energy", st - 1, log_amount(rng, 10 ** 9) + 100, rng.randrange(len(LOCK_OPTIONS))]
        if roll < 0.15:
            return ["Time", rng.choice([1, 3, 10, 100]), rng.choice([7, 7, 8, 14, 1, 35])]
    if roll < 0.19:
        return ["Time", rng.choice([1, 1, 3, 10, 100, 1000]), rng.choice([0, 0, 1, 1, 3, 7, 8, 30])]
    if roll < 0.22:
        return ["Energy", c, log_amount(rng, 10 ** 12), rng.randrange(len(LOCK_OPTIONS))]
    if roll < 0.30:
        kind = rng.random()
        who = rng.choice([OWNER] * 6 + users)
        if kind < 0.2:
            _val = rng.choice([0, 1, 1000, 10 ** 6, log_amount(rng)])
            if who == OWNER and rng.random() < 0.5:
                # blocks pass first: they must be settled with the OLD parameters (changes are never retroactive)
                _pend.append(["SetRate", OWNER, _val])
                return ["Time", rng.choice([1, 3, 10, 100]), 0]
            return ["SetRate", who, _val]
        if kind < 0.28:
            if who == OWNER and rng.random() < 0.5:
                _pend.append(["End", OWNER])
                return ["Time", rng.choice([1, 3, 10, 100]), 0]
            return ["End", who]
        if kind < 0.45:
            _val = rng.choice([0, 1, 2500, 2500, 9999, 10000, 10001])
            if who == OWNER and rng.random() < 0.5:
                # blocks pass first: they must be settled with the OLD parameters (changes are never retroactive)
                _pend.append(["SetPct", OWNER, _val])
                return ["Time", rng.choice([1, 3, 10, 100]), 0]
            return ["SetPct", who, _val]
        if kind < 0.6:
            return ["SetFactors", who, gen_factors(rng)]
        if kind < 0.67:
            return ["SetState", who, rng.choice([0, 1, 1])]
        if kind < 0.74:
            return ["SetMinEpochs", who, rng.choice([0, 1, 3, 30, 31])]
        if kind < 0.80:
            return ["SetPenalty", OWNER, rng.choice([0, 1, 100, 9999, 10000])]
        if kind < 0.93:
            return ["SetLockEpochs", who, rng.choice(listed * 2 + [100, 0])]
        return ["TopUp", log_amount(rng, 10 ** 9)]
    if type(w).__name__ in ("FarmWorld", "LockedFarmWorld", "StakingPosWorld") and w.last["supply"] > 0 and rng.random() < 0.02:
        return ["Upgrade"]          # only the base worlds (their derived worlds have their own observation code)
    if (w.cfg.get("boost") and w.last["utot"].get(c, 0) > 0 and w.acted.get(c, 0) < w.week() and sh["state"] == 1
            and rng.random() < 0.4):
        return ["ClaimBoosted", c]      # first operation of the user in a new week: this is where boosted rewards are due
    mine = positions_of(w, c)
    if roll < 0.48 or not mine:
        amt = rng.choice([1, 2, rng.randint(1, 100), log_amount(rng), log_amount(rng)])
        adds = []
        if mine and rng.random() < 0.35:
            for (n, v) in rng.sample(mine, min(len(mine), rng.randint(1, 3))):
                adds.append((n, v if rng.random() < 0.6 else rng.randint(1, v)))
        return ["Enter", c, amt, adds]
    part = lambda v: v if rng.random() < 0.55 else rng.randint(1, v)
    if roll < 0.64:
        sel = rng.sample(mine, min(len(mine), rng.choice([1, 1, 1, 2, 3])))
        ps = [(n, part(v)) for n, v in sel]
        return ["Claim", c, ps[0], ps[1:]]
    if roll < 0.75:
        n, v = rng.choice(mine)
        return ["Exit", c, (n, part(v))]
    if roll < 0.83:
        sel = rng.sample(mine, min(len(mine), rng.choice([1, 2, 2, 3, 4])))
        return ["Merge", c, [(n, part(v)) for n, v in sel]]
    if roll < 0.89:
        return ["ClaimBoosted", c]
    if roll < 0.985:
        n, v = rng.choice(mine)
        return ["Transfer", n, c, rng.choice([u for u in users if u != c]), part(v)]
    sel = rng.sample(mine, min(len(mine), rng.choice([1, 1, 2])))
    ps = [(n, part(v)) for n, v in sel]
    return ["Compound", c, ps[0], ps[1:]]         # no such endpoint in this contract


def gen_history(seed, nops, world=LockedFarmWorld):
    rng = random.Random(seed)
    cfg = gen_cfg(rng)
    w = world(cfg)
    trace = []
    try:
        for _ in range(nops):
            op = gen_op(rng, w)
            trace.append((op, w.exec(op)))
    finally:
        w.close()
    return cfg, trace


def fix_op(op):
    """operations read back from JSON: position payments are tuples"""
    op = list(op)
    k = op[0]
    tup = lambda p: (p[0], p[1])
    if k == "Enter":
        op[3] = [tup(p) for p in op[3]]
    elif k in ("Claim", "Compound"):
        op[2] = tup(op[2])
        op[3] = [tup(p) for p in op[3]]
    elif k == "Exit":
        op[2] = tup(op[2])
    elif k == "Merge":
        op[2] = [tup(p) for p in op[2]]
    return op


def replay_history(cfg, ops, world=LockedFarmWorld):
    w = world(cfg)
    trace = []
    try:
        for op in ops:
            op = fix_op(op)
            trace.append((op, w.exec(op)))
    finally:
        w.close()
    return trace
