"""farm-staking as a whole (closed model coq/Model/StakingFull.v): tools/sys_staking_pos.py's StakingPosWorld (real
farm-staking + energy-factory-mock + permissions-hub + whitelisted proxy caller) with boosted yields on, observed on
the staking side by StakingPosWorld.observe and on the boosted-module side by tools/sys_boosted.py's
BoostWorld.observe (both reused by import), plus the two endpoints StakingPosWorld does not drive
(collectUndistributedBoostedRewards, updateEnergyForUser) and an observation of the clock operations.

Nothing the closed model computes is handed to it: an operation carries only the caller's arguments and, for the
endpoints that read a user's energy, the energy factory's STORED entry of that user at the time of the call (raw
storage of the factory contract: amount, last update epoch, total locked tokens; absent = None).  The clock moves by
explicit Time operations.

Ops: those of tools/sys_staking_pos.py, and ["Collect", who], ["UpdateEnergy", who, user].
The user whose boosted rewards an endpoint settles (`claim_user(op)`): the ORIGINAL caller for Stake / StakeProxy /
Claim / ClaimNewValue / Unstake / UnstakeProxy, the caller for Compound / Merge / ClaimBoosted."""
import random
import sys_staking as ss
import sys_staking_pos as sp
import sys_boosted as sb
from sys_staking import STK, FARM, NUSERS, OWNER, PROXY, MAXP, BLOCKS_IN_YEAR, zlit, log_amount
from vmx import *

USERS = list(range(1, NUSERS + 1))
USER_OPS = sp.USER_OPS
ORIG_OPS = ("Stake", "StakeProxy", "Claim", "ClaimNewValue", "Unstake", "UnstakeProxy")
SETTLING = ("Stake", "StakeProxy", "Claim", "ClaimNewValue", "Compound", "Unstake", "UnstakeProxy", "ClaimBoosted",
            "Withdraw", "SetRate", "End", "SetApr", "SetPct")
LAST_KEYS = ("supply", "reserve", "rps", "last", "cap", "acc", "pool", "bal", "state", "held", "ubheld", "ubtot", "utot", "pos", "ub") + sp.EXTRA_KEYS


def claim_user(op):
    k = op[0]
    if k in ORIG_OPS:
        return op[2]
    if k in ("Compound", "Merge", "ClaimBoosted"):
        return op[1]
    if k == "UpdateEnergy":
        return op[2]
    return None


class StakingFullWorld(sp.StakingPosWorld):
    def __init__(self, cfg):
        cfg = dict(cfg, boost=True)
        sp.StakingPosWorld.__init__(self, cfg)
        self.farm = self.sc                      # sys_boosted's observer reads `self.farm`
        # sys_boosted's observer looks at users 1..4: the 4th exists, owns nothing and never acts
        for u in sb.USERS:
            if u not in self.addr:
                self.addr[u] = user_addr(f"user{u}")
                self.vm.acct(self.addr[u])
        self.ids = {v: k for k, v in self.addr.items()}
        self.owner_of = {}
        self.lastm = sb.BoostWorld.observe(self)
        # harness-side ledgers for the link / no-underflow monitors (never fed back into the contracts)
        self.g_paid = {}         # week -> boosted payments made for it
        self.g_frozen = {}       # week -> R
        self.g_used_f = {}       # week -> sum of the positions the settlements of that week's pool were computed with
        self.g_used_e = {}       # week -> sum of the (decayed) energies they were computed with

    def raw_entry(self, u):
        """the energy factory's stored entry for user u (what energy-query reads), or None"""
        v = self.vm.sget(self.efact, b"userEnergy" + self.addr[u])
        if not v:
            return None
        d = Dec(v)
        e = sb.dec_energy(d)
        assert d.done()
        return list(e)

    def _plain(self, r):
        """staking-side observation of an operation StakingPosWorld.exec does not know (clock, collect, updateEnergy)"""
        o = self.observe()
        o["ok"], o["msg"], o["outs"], o["b"], o["left"] = r.ok, r.msg, [], 0, 0
        o["blk"], o["ep"] = self.blk, self.ep
        o["exp_total"] = 0
        o["new_ub"], o["new_pos"] = {}, {}
        o["virt"], o["donated"] = self.virt, self.donated
        o["pos"], o["ub"] = dict(self.pos), dict(self.ub)
        o["cfg"] = dict(self.shadow)
        o["pre_cfg"] = dict(self.shadow)
        o["settles"] = False
        o["pre"] = self.last
        self.last = {x: o[x] for x in LAST_KEYS}
        return o

    def exec(self, op):
        vm, A, k = self.vm, self.addr, op[0]
        prem = self.lastm
        if k == "Energy":
            return sp.StakingPosWorld.exec(self, op)
        user = claim_user(op)
        raw = self.raw_entry(user) if user in A else None
        if k == "Time":
            sp.StakingPosWorld.exec(self, op)
            o = self._plain(Result(0, "", []))
        elif k == "Collect":
            o = self._plain(vm.call(A[op[1]], self.sc, "collectUndistributedBoostedRewards", []))
        elif k == "UpdateEnergy":
            o = self._plain(vm.call(A[op[1]], self.sc, "updateEnergyForUser", [A[op[2]]]))
        else:
            o = sp.StakingPosWorld.exec(self, op)
        m = sb.BoostWorld.observe(self)
        m["ok"], m["msg"] = o["ok"], o["msg"]
        cw = m["week"]
        paid = {}
        if o["ok"] and k not in ("Collect", "Time"):
            for w in set(prem["acc"]) | set(prem["rem"]):
                if w < cw:
                    d = prem["acc"].get(w, 0) + prem["rem"].get(w, 0) - m["acc"].get(w, 0) - m["rem"].get(w, 0)
                    if d != 0:
                        paid[w] = d
        m["paid"] = paid
        m["b"] = sum(paid.values())
        m["cut"] = (m["acc"].get(cw, 0) - prem["acc"].get(cw, 0)) if (o["ok"] and k != "Time") else 0
        m["pre"] = prem
        o["m"] = m
        o["raw"] = raw
        o["user"] = user
        # the accrual of this operation's settlement, from the state before it (sys_staking.expected_total)
        o["emission"] = o["exp_total"] if (o["ok"] and k in SETTLING) else 0
        if o["ok"]:
            for w, r in m["rewards"].items():
                if r and not prem["rewards"].get(w) and w not in self.g_frozen:
                    self.g_frozen[w] = r[0]
            for w, x in paid.items():
                self.g_paid[w] = self.g_paid.get(w, 0) + x
            if k in USER_OPS and user in o["pre"]["utot"]:
                pg = prem["prog"].get(user)
                if pg is not None and prem["cfg"] is not None:
                    for w in range(max(pg[3], cw - sb.MAX_CLAIM_WEEKS), cw):
                        self.g_used_f[w] = self.g_used_f.get(w, 0) + o["pre"]["utot"][user]
                        self.g_used_e[w] = self.g_used_e.get(w, 0) + sb.decayed(pg, w)
        o["ledger"] = dict(paid=dict(self.g_paid), frozen=dict(self.g_frozen), used_f=dict(self.g_used_f), used_e=dict(self.g_used_e))
        self.lastm = {x: v for x, v in m.items() if x != "pre"}
        return o


# ------------------------------------------------------------------ Coq emission
def coq_raw(raw):
    return "None" if raw is None else f"(Some {sb.coq_en(raw)})"


def coq_op(op, o):
    k = op[0]
    pl = sp.plist
    raw = coq_raw(o["raw"])
    pr = lambda p: f"({p[0]}, {p[1]})"
    if k == "Time":
        return f"SXTime {op[1]} {op[2]}"
    if k == "Stake":
        return f"SXStake {op[1]} {op[2]} {op[3]} {pl(op[4])} {raw}"
    if k == "StakeProxy":
        return f"SXStakeProxy {op[1]} {op[2]} {op[3]} {pl(op[4])} {raw}"
    if k == "Claim":
        return f"SXClaim {op[1]} {op[2]} {pr(op[3])} {raw}"
    if k == "ClaimNewValue":
        return f"SXClaimNewValue {op[1]} {op[2]} {pr(op[3])} {op[4]} {raw}"
    if k == "Compound":
        return f"SXCompound {op[1]} {pr(op[2])} {pl(op[3])} {raw}"
    if k == "Unstake":
        return f"SXUnstake {op[1]} {op[2]} {pr(op[3])} {raw}"
    if k == "UnstakeProxy":
        return f"SXUnstakeProxy {op[1]} {op[2]} {pr(op[3])} {op[4]} {raw}"
    if k == "Unbond":
        return f"SXUnbond {op[1]} {op[2]} {op[3]}"
    if k == "Merge":
        return f"SXMerge {op[1]} {pl(op[2])} {raw}"
    if k == "ClaimBoosted":
        return f"SXClaimBoosted {op[1]} {raw}"
    if k == "Transfer":
        return f"SXTransfer {op[1]} {op[2]} {op[3]} {op[4]}"
    if k == "TransferUb":
        return f"SXTransferUb {op[1]} {op[2]} {op[3]} {op[4]}"
    if k == "TopUp":
        return f"SXTopUp {op[1]} {op[2]}"
    if k == "Withdraw":
        return f"SXWithdraw {op[1]} {op[2]}"
    if k == "SetRate":
        return f"SXSetRate {op[1]} {op[2]}"
    if k == "Start":
        return f"SXStart {op[1]}"
    if k == "End":
        return f"SXEnd {op[1]}"
    if k == "SetApr":
        return f"SXSetApr {op[1]} {op[2]}"
    if k == "SetMinUnbond":
        return f"SXSetMinUnbond {op[1]} {op[2]}"
    if k == "SetPct":
        return f"SXSetPct {op[1]} {op[2]}"
    if k == "SetFactors":
        return f"SXSetFactors {op[1]} {sb.coq_fac(op[2])}"
    if k == "SetState":
        return f"SXSetState {op[1]} {op[2]}"
    if k == "Donate":
        return f"SXDonate {op[1]}"
    if k == "Collect":
        return f"SXCollect {op[1]}"
    if k == "UpdateEnergy":
        return f"SXUpdateEnergy {op[1]} {op[2]} {raw}"
    raise ValueError(k)


def coq_obs(op, o):
    return f"mkSXObs ({sp.coq_obs(op, o)}) ({sb.coq_obs(o['m'])}) {zlit(o['b'])} {o['blk']}"


def coq_history(cfg, trace):
    items = ";\n    ".join(f"({coq_op(op, o)}, {coq_obs(op, o)})" for op, o in trace if o is not None)
    return f"(check_trace (init_sx {cfg['dsc']} {cfg['apr']} {cfg['minub']} 10 5) 0 [\n    {items}])"


# ------------------------------------------------------------------ generation
def gen_cfg(rng):
    """tools/sys_staking_pos.py's configurations (DSC 1..1e18, max APR 'always binds' .. 'never binds', unbond period,
    typical stake size) with boosted yields on; a quarter of the histories configure the factors late"""
    cfg = sp.gen_cfg(rng)
    cfg["boost"] = True
    cfg["late_factors"] = rng.random() < 0.25
    return cfg


def gen_factors(rng, w=None):
    sc = (w.cfg.get("scale", 1) if w is not None else 1)
    return [rng.choice([0, 1, 2, 2, 3, 10, 1000]), rng.choice([0, 1, 3, 3, 7]), rng.choice([0, 1, 2, 2, 5]),
            rng.choice([1, 1, 10, 1000]), rng.choice([1, 1, 2, 100, max(1, sc // 2)])]


def user_op(rng, w, c, kinds, must=None):
    """a (mostly valid) operation of user c on his own positions; `must` = a nonce that has to be among the payments"""
    mine = sp.positions_of(w, c)
    part = lambda v: v if rng.random() < 0.6 else rng.randint(1, v)
    kind = rng.choice(kinds)
    if not mine and kind != "ClaimBoosted":
        kind = "Stake"

    def pick(maxn):
        sel = rng.sample(mine, min(len(mine), rng.choice(maxn)))
        if must is not None:
            sel = [(n, v) for n, v in mine if n == must] + [(n, v) for n, v in sel if n != must]
        return [(n, part(v)) for n, v in sel]

    if kind == "Stake":
        adds = pick([1, 1, 2]) if (mine and (must is not None or rng.random() < 0.3)) else []
        return ["Stake", c, c, sp.stake_amount(rng, w), adds]
    if kind == "Claim":
        return ["Claim", c, c, pick([1])[0]]
    if kind == "Compound":
        ps = pick([1, 1, 2, 3])
        return ["Compound", c, ps[0], ps[1:]]
    if kind == "Unstake":
        return ["Unstake", c, c, pick([1])[0]]
    if kind == "Merge":
        return ["Merge", c, pick([1, 2, 2, 3])]
    return ["ClaimBoosted", c]


ALL_KINDS = ["ClaimBoosted", "Claim", "ClaimBoosted", "Stake", "Unstake", "Merge", "Compound", "Compound", "Claim"]
RECV_KINDS = ["Compound", "Claim", "Stake", "Merge", "Unstake"]


def gen_energy_op(rng, w, u):
    en, tok = sb.gen_energy(rng, rng.choice([1, 1, 1000]), None)
    return ["Energy", u, en, tok]


def gen_op(rng, w):
    script = w.__dict__.setdefault("script", [])
    if script:
        nxt = script.pop(0)
        return nxt(rng, w) if callable(nxt) else nxt
    sh = w.shadow
    if w.cfg.get("late_factors") and getattr(w, "boost_stage", 0) == 1 and not sh["factors"]:
        # percentage > 0 while no factors are configured: sys_staking_pos's bring-up would set them right away; here they
        # come later (the admin share below), after users staked / settled / weeks passed without a config
        w.boost_stage = 2
        return ["Time", rng.choice([1, 10]), 0]
    if getattr(w, "boost_stage", 0) >= 5 and sh["produce"] and sh["state"] == 1:
        if not w.__dict__.get("x_started"):
            # every user gets an energy entry of sys_boosted's classes (long locks, locks running out inside the claim
            # window, below the minimum, zero, tokens without energy) and most of them a first position
            w.x_started = True
            for u in USERS:
                script.append(gen_energy_op(rng, w, u))
            for u in rng.sample(USERS, rng.choice([2, 3, 3])):
                script.append(["Stake", u, u, sp.stake_amount(rng, w), []])
            if rng.random() < 0.5:
                script.append(["StakeProxy", PROXY, rng.choice(USERS), sp.stake_amount(rng, w), []])
            if rng.random() < 0.3:
                # the whitelisted caller itself has energy: when it compounds / merges / claims boosted with the positions
                # it holds, ITS boosted rewards are settled (it is the caller, there is no original-caller argument)
                script.append(gen_energy_op(rng, w, PROXY))
                w.proxy_acts = True
            return script.pop(0)
        roll = rng.random()
        holders = [u for u in USERS if sp.positions_of(w, u)]
        if roll < 0.03:
            return ["Collect", rng.choice([OWNER] * 5 + [1])]
        if roll < 0.06:
            return ["UpdateEnergy", rng.choice(USERS), rng.choice(USERS)]
        if roll < 0.08:
            return gen_energy_op(rng, w, rng.choice(USERS))
        if roll < 0.19:
            # a week change, followed by some holders settling (pools freeze, claim progress moves) ...
            weeks = rng.choice([1, 1, 1, 1, 1, 2, 2, 3, 4, 5, 6])
            if holders:
                for u in sorted(set(rng.choice(holders) for _ in range(rng.choice([1, 2, 3])))):
                    script.append((lambda uu: (lambda r, ww: user_op(r, ww, uu, ALL_KINDS)))(u))
            pp = sp.positions_of(w, PROXY)
            if pp and rng.random() < 0.35:
                # ... the proxy settles an original caller's virtual position in the new week
                n, v = rng.choice(pp)
                x = v if rng.random() < 0.6 else rng.randint(1, v)
                u = rng.choice(USERS)
                script.append(rng.choice([["ClaimNewValue", PROXY, u, (n, x), rng.choice([x, x + 1, max(0, x - 1), x * 2])],
                                          ["UnstakeProxy", PROXY, u, (n, x), rng.choice([x, max(1, x // 2), x + 3])],
                                          ["StakeProxy", PROXY, u, sp.stake_amount(rng, w), [(n, x)]],
                                          ["Claim", PROXY, u, (n, x)]]))
            # ... sometimes right after new factors, an energy change or a position changing hands in the new week
            if rng.random() < 0.25:
                script.insert(0, ["SetFactors", OWNER, gen_factors(rng, w)])
            if rng.random() < 0.3:
                script.insert(0, ["Energy", rng.choice(USERS), log_amount(rng, 10 ** 12), log_amount(rng, 10 ** 9)])
            if holders and rng.random() < 0.5:
                src = rng.choice(holders)
                n, v = rng.choice(sp.positions_of(w, src))
                dst = rng.choice([u for u in USERS if u != src])
                scen = [["ClaimBoosted", src]] if rng.random() < 0.5 else []
                scen.append(["Transfer", n, src, dst, v if rng.random() < 0.7 else rng.randint(1, v)])
                scen.append((lambda dd, nn: (lambda r, ww: user_op(r, ww, dd, RECV_KINDS, must=nn)))(dst, n))
                script[0:0] = scen
            return ["Time", rng.choice([1, 10, 100, 1000]), 7 * weeks + rng.choice([0, 0, 0, 1, 3])]
        if roll < 0.24 and holders:
            src = rng.choice(holders)
            n, v = rng.choice(sp.positions_of(w, src))
            dst = rng.choice([u for u in USERS if u != src])
            script.append((lambda dd, nn: (lambda r, ww: user_op(r, ww, dd, RECV_KINDS, must=nn)))(dst, n))
            return ["Transfer", n, src, dst, v if rng.random() < 0.7 else rng.randint(1, v)]
        if roll < (0.27 if sh["factors"] else 0.31):
            return ["SetFactors", rng.choice([OWNER] * 5 + [2]),
                    gen_factors(rng, w) if rng.random() < 0.85 else [1, 1, 1, rng.choice([0, 1]), rng.choice([0, 1])]]
        if roll < 0.36 and holders:
            return user_op(rng, w, rng.choice(holders), ALL_KINDS)
        if roll < 0.38 and w.__dict__.get("proxy_acts") and sp.positions_of(w, PROXY):
            return user_op(rng, w, PROXY, ["Compound", "Merge", "ClaimBoosted"])
        if roll < 0.43:
            # malformed / unauthorised / out-of-phase calls of the closed model's own vocabulary
            c = rng.choice(USERS)
            mine = sp.positions_of(w, c)
            others = [(n, v, u) for u in USERS + [PROXY] if u != c for n, v in sp.positions_of(w, u)]
            kind = rng.random()
            if kind < 0.15:
                empty = [u for u in USERS if w.last["utot"].get(u, 0) == 0]
                return ["ClaimBoosted", rng.choice(empty) if empty else c]                  # no position
            if kind < 0.30 and mine:
                n, v = rng.choice(mine)
                return rng.choice([["Claim", c, rng.choice([u for u in USERS if u != c]), (n, v)],   # original caller without whitelist
                                   ["Unstake", c, rng.choice([u for u in USERS if u != c]), (n, v)]])
            if kind < 0.50 and mine:
                n, v = rng.choice(mine)
                return rng.choice([["Compound", c, (n, v + rng.randint(1, 9)), []], ["Merge", c, [(n, v), (n, 1)]],
                                   ["Stake", c, c, sp.stake_amount(rng, w), [(n, v + 1)]]])   # more than held
            if kind < 0.65 and others:
                n, v, _ = rng.choice(others)
                return rng.choice([["Compound", c, (n, 1), []], ["Claim", c, c, (n, min(v, 2))], ["Merge", c, [(n, 1)]]])   # somebody else's nonce
            if kind < 0.75:
                return rng.choice([["SetPct", c, 2500], ["SetFactors", c, gen_factors(rng, w)], ["Collect", c], ["Withdraw", c, 1],
                                   ["SetApr", c, 10 ** 9], ["TopUp", c, 1000]])               # not the admin
            if kind < 0.85:
                return rng.choice([["SetPct", OWNER, 10001], ["SetFactors", OWNER, [1, 0, 0, 1, 1]], ["SetFactors", OWNER, [1, 1, 1, 0, 1]],
                                   ["SetApr", OWNER, 0], ["SetRate", OWNER, 0],
                                   ["Withdraw", OWNER, max(0, w.last["cap"] - w.last["acc"]) + rng.randint(1, 10 ** 6)]])
            ubs = [(n, u, v) for (n, u), v in sorted(w.last["ubheld"].items()) if v > 0]
            if ubs:
                n, u, v = rng.choice(ubs)
                # (an unbond token paid into a position endpoint is not generated: the attribute decoding failure kills
                #  the debug executor process instead of returning an error)
                return rng.choice([["Unbond", u, n, v + 1], ["Unbond", rng.choice([x for x in USERS if x != u]), n, 1]])
            return ["StakeProxy", c, c, rng.randint(1, 1000), []]                            # not whitelisted
        if roll < 0.46:
            # production stopped after some blocks (the settlement of endProduceRewards books a slice too), a user acts,
            # production restarts; or the rate / percentage / APR changes after some blocks
            script.append(rng.choice([["End", OWNER], ["SetRate", OWNER, sp.rate_amount(rng, w)],
                                      ["SetPct", OWNER, rng.choice([0, 1, 2500, 5000, 10000])],
                                      ["SetApr", OWNER, rng.choice([1, 500, 10 ** 9, 10 ** 12, 10 ** 15, 10 ** 18])]]))
            if holders and rng.random() < 0.5:
                script.append((lambda uu: (lambda r, ww: user_op(r, ww, uu, ALL_KINDS)))(rng.choice(holders)))
            script.append(["Time", rng.choice([1, 2, 10]), 0])
            script.append(["Start", OWNER])
            return ["Time", rng.choice([1, 3, 10, 100]), rng.choice([0, 0, 1])]
    return sp.gen_op(rng, w)


def normalize(op):
    return sp.norm_op(op)


def gen_history(seed, nops, world=StakingFullWorld, gen=gen_op, cfg=None):
    rng = random.Random(seed)
    if cfg is None:
        cfg = gen_cfg(rng)
    w = world(cfg)
    trace = []
    try:
        for _ in range(nops):
            op = normalize(gen(rng, w))
            trace.append((op, w.exec(op)))
    finally:
        w.close()
    return cfg, trace


def replay_history(cfg, ops, world=StakingFullWorld):
    w = world(cfg)
    trace = []
    try:
        for op in ops:
            op = normalize(op)
            trace.append((op, w.exec(op)))
    finally:
        w.close()
    return trace
