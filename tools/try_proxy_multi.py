#!/usr/bin/env python3
"""Standalone driver for the two-pair proxy-DEX tie (no framework needed):

    python3 tools/try_proxy_multi.py [N histories=150] [ops per history=40] [seed=1] [--no-coq] [--show K] [--errors] [--replay]

Runs N generated histories on the real contracts (MXVM_BIN selects an executor built against another tree; VERIF_REPO=<tree>
builds one the way tools/framework.py build_harness() does), evaluates every monitor of tools/props/proxy_multi_common.py on
every observation, replays every history in Coq on Model/ProxyMulti.v (Run/ProxyMultiRun.v check_trace) and prints the
counters, the monitor failures grouped by key and the correspondence mismatches.  --replay re-executes the first reported
history from its recorded operations and prints what the monitors say again.  Exit status 1 when anything was reported."""
import os, sys, collections, time
sys.path.insert(0, os.path.dirname(os.path.abspath(__file__)))


def main():
    args, opts, it = [], {}, iter(sys.argv[1:])
    for a in it:
        if a in ("--show",):
            opts[a] = next(it)
        elif a.startswith("--"):
            opts[a] = True
        else:
            args.append(a)
    if os.environ.get("VERIF_REPO", "/repo").rstrip("/") != "/repo" and not os.environ.get("MXVM_BIN"):
        import framework
        ok, out = framework.build_harness()
        if not ok:
            print("executor build failed:\n" + out)
            return 2
    from props import proxy_multi_common as pmc
    nh = int(args[0]) if len(args) > 0 else 150
    nops = int(args[1]) if len(args) > 1 else 40
    seed = int(args[2]) if len(args) > 2 else 1
    show = int(opts.get("--show", 2))
    t0 = time.time()
    ex = pmc.explore_multi("TRY", "quick", seed, model_ok="--no-coq" not in opts, scale=(nh, nops))
    c = ex.counters
    print(f"executor: {os.environ.get('MXVM_BIN', 'default (/repo)')}   wall {time.time() - t0:.1f} s")
    print(f"histories {ex.histories}  observed operations {ex.evaluations}  distinct non-trivial classes {len(ex.nontrivial)}")
    ok, err = c.get("multi:ops:ok", 0), c.get("multi:ops:err", 0)
    print(f"  ops {ok + err}  ok {ok}  err {err}  success {100.0 * ok / max(1, ok + err):.1f}%")
    print("counters:")
    for k in sorted(c):
        if k.startswith("err:") and "--errors" not in opts:
            continue
        print(f"  {k:72s} {c[k]}")
    by = collections.OrderedDict()
    for f in ex.failures:
        by.setdefault(f["key"], []).append(f)
    print(f"monitor failures: {len(ex.failures)} in {len(by)} keys")
    for k, fs in by.items():
        hs = len({f["replay"]["seed"] for f in fs})
        print(f"  {k}: {len(fs)} (in {hs} histories)")
        for f in fs[:show]:
            print(f"      seed {f['replay']['seed']} op#{len(f['replay']['ops'])}: {f['what'][:600]}")
    print(f"traces replayed in Coq: {ex.traces_validated}   correspondence mismatches: {len(ex.disagreements)}")
    fields = collections.Counter((d.get("where"), d.get("field")) for d in ex.disagreements)
    if fields:
        print("  by (checker, field):", dict(fields))
    for d in ex.disagreements[:show + 2]:
        if "index" not in d:
            print("  ", d)
            continue
        print(f"  {d['where']} seed {d['seed']} index {d['index']} field {d['field']} model {d['model']} impl {d['impl']} op {d['op']}")
        print(f"      observed: { {k: v for k, v in d['observed'].items() if k in ('ok', 'msg', 'outs', 'env', 'lp', 'new_wlp')} }")
    if "--replay" in opts and (ex.failures or ex.disagreements):
        if ex.failures:
            f = ex.failures[0]
            print(f"replay of seed {f['replay']['seed']} ({len(f['replay']['ops'])} operations), first reported key {f['key']}:")
            again = pmc.replay_multi(f)
        else:
            d = ex.disagreements[0]
            print(f"replay of seed {d['seed']} ({len(d['ops'])} operations) up to the disagreeing operation:")
            again = pmc.replay_multi(dict(replay=dict(cfg=d["cfg"], ops=d["ops"])))
        for a in again[:6]:
            print(f"      {a['key']}: {a['what'][:400]}")
        print(f"  replay reports {len(again)} monitor failure(s)")
    return 1 if (ex.failures or ex.disagreements) else 0


if __name__ == "__main__":
    sys.exit(main())
