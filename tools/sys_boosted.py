"""Boosted-yields subsystem (property C11): the real dex/farm with boosted yields enabled, the real
energy-factory-mock as energy source and the permissions hub, driven through the mxvm executor.

Model ids (coq/Model/Boosted.v): OWNER = 100 (owner/admin), users 1..NUSERS.
Everything the model takes as an INPUT of an operation is read from the real contracts right
before / after the call:
  cur    = energy factory view getEnergyEntryForUser(user) in the operation's block
  pos    = getUserTotalFarmPosition(user) before the call, posa = after the call (exitFarm)
  full   = per-block reward * (block nonce - last reward block nonce) if rewards are produced
  supply = getFarmTokenSupply after the call
  pre    = the farm-level guards hold (contract active, caller owns the payments, token kinds)
Observed after every call (complete week-indexed maps are read from the farm's storage, which is
what the generated view getters return): accumulatedRewardsForWeek, remainingBoostedRewardsToDistribute,
farmSupplyForWeek, totalEnergyForWeek, totalRewardsForWeek, undistributed, last collect week,
percentage, the whole boostedYieldsConfig (last_update_week + 5 factor slots), every user's claim
progress and total farm position, lastGlobalUpdateWeek.  The boosted payout of an operation is the
decrease of the completed weeks' pools (accumulated + remaining), per week."""
import random
from fractions import Fraction
from vmx import *

REW = b"REW-abcdef"
LPF = b"LPFARM-abcdef"
FARM = b"FARM-abcdef"
NUSERS = 4
USERS = list(range(1, NUSERS + 1))
OWNER = 100
MAXP = 10000
BIG = 10 ** 60
EPOCHS_IN_WEEK = 7
MAX_CLAIM_WEEKS = 4
WINDOW = 9
USER_OPS = ("Enter", "Claim", "Compound", "Exit", "Merge", "ClaimBoosted")
SETTLING = ("Enter", "Claim", "Compound", "Exit", "ClaimBoosted", "SetRate", "End", "SetPct")


def zlit(n):
    return f"({n})" if n < 0 else str(n)


def dec_energy(d):
    amt = d.bigint()
    ep = d.u64()
    tok = d.big()
    return amt, ep, tok


def decayed(prog, w):
    """a recorded claim-progress entry [amount, epoch, tokens, week] decayed to week w (>= its week)"""
    amt, ep, tok, wk = prog
    return max(0, amt - EPOCHS_IN_WEEK * tok * (w - wk))


class BoostWorld:
    CODE = "farm"

    def __init__(self, cfg):
        """cfg: dsc, same(bool), rate, epoch0"""
        self.cfg = cfg
        vm = self.vm = VM()
        self.addr = {OWNER: user_addr("owner")}
        for u in USERS:
            self.addr[u] = user_addr(f"user{u}")
        self.ids = {v: k for k, v in self.addr.items()}
        self.farm = sc_addr("farm1")
        self.efact = sc_addr("efactory")
        self.hub = sc_addr("permhub")
        for a in self.addr.values():
            vm.acct(a)
        self.blk, self.ep = 10, cfg.get("epoch0", 5)
        vm.block(nonce=self.blk, round_=self.blk, epoch=self.ep, ts=6 * self.blk)
        own = self.addr[OWNER]
        self.rew = REW
        self.farming = REW if cfg["same"] else LPF
        r = vm.deploy(own, "energy-factory-mock", [], new_addr=self.efact)
        assert r.ok, r
        r = vm.deploy(own, "permissions-hub", [], new_addr=self.hub)
        assert r.ok, r
        r = vm.deploy(own, self.CODE, [self.rew, self.farming, top_u(cfg["dsc"]), ZERO_ADDR, own], new_addr=self.farm)
        assert r.ok, r
        vm.sset(self.farm, b"farm_token_id", FARM)
        vm.roles(self.farm, FARM, ["ESDTRoleNFTCreate", "ESDTRoleNFTAddQuantity", "ESDTRoleNFTBurn"])
        vm.roles(self.farm, self.rew, ["ESDTRoleLocalMint", "ESDTRoleLocalBurn"])
        if not cfg["same"]:
            vm.roles(self.farm, self.farming, ["ESDTRoleLocalBurn"])
        assert vm.call(own, self.farm, "setEnergyFactoryAddress", [self.efact]).ok
        assert vm.call(own, self.farm, "setPermissionsHubAddress", [self.hub]).ok
        for u in USERS:
            vm.setbal(self.addr[u], self.farming, 0, BIG)
        self.first_epoch = self.ep
        # farm-only bring-up (no boosted percentage yet, so the module's state is untouched)
        assert vm.call(own, self.farm, "setPerBlockRewardAmount", [top_u(cfg["rate"])]).ok
        assert vm.call(own, self.farm, "resume", []).ok
        assert vm.call(own, self.farm, "startProduceRewards", []).ok
        # ghost bookkeeping for the monitors (never fed back into the contracts)
        self.g_frozen = {}       # week -> R fixed at the first claim
        self.g_paid = {}         # week -> sum of boosted payments for that week
        self.g_claimed = {}      # (user, week) -> number of positive payments
        self.g_swept = {}        # week -> amount moved to undistributed
        self.g_und = 0           # sum of everything swept
        self.g_cuts = {}         # week -> sum of the cuts taken by take_reward_slice
        self.g_faclog = []       # [(week, factors)] accepted setBoostedYieldsFactors calls
        self.owner_of = {}       # nonce -> original_owner id
        self.last = self.observe()

    def close(self):
        self.vm.close()

    # ------------------------------------------------------------ observation
    def q(self, f, args=()):
        r = self.vm.query(self.farm, f, args)
        assert r.ok, (f, r)
        return from_top_u(r.out[0]) if r.out else 0

    def energy_entry(self, u):
        r = self.vm.query(self.efact, "getEnergyEntryForUser", [self.addr[u]])
        assert r.ok, r
        d = Dec(r.out[0])
        e = dec_energy(d)
        assert d.done()
        return list(e)

    def observe(self):
        vm = self.vm
        cw = self.q("getCurrentWeek")
        o = dict(week=cw, epoch=self.ep, blk=self.blk)
        maps = dict(acc={}, rem={}, sup={}, energy={}, rewards={})
        prefixes = dict(acc=b"accumulatedRewardsForWeek", rem=b"remainingBoostedRewardsToDistribute",
                        sup=b"farmSupplyForWeek", energy=b"totalEnergyForWeek", rewards=b"totalRewardsForWeek")
        prog = {u: None for u in USERS}
        store = dict(vm.sdump(self.farm))
        for k, v in store.items():
            for name, p in prefixes.items():
                if k.startswith(p) and len(k) == len(p) + 4:
                    w = int.from_bytes(k[len(p):], "big")
                    if name == "rewards":
                        d = Dec(v)
                        ps = []
                        while not d.done():
                            ps.append(d.payment())
                        maps[name][w] = [a for (t, n, a) in ps]
                    else:
                        maps[name][w] = from_top_u(v)
            if k.startswith(b"currentClaimProgress") and len(k) == len(b"currentClaimProgress") + 32:
                a = k[len(b"currentClaimProgress"):]
                if a in self.ids and v:
                    d = Dec(v)
                    amt, ep, tok = dec_energy(d)
                    wk = d.u32()
                    assert d.done()
                    prog[self.ids[a]] = [amt, ep, tok, wk]
        o.update(maps)
        o["prog"] = prog
        # the window is cross-read through the real views
        for w in range(max(1, cw - MAX_CLAIM_WEEKS - 1), cw + 1):
            assert self.q("getAccumulatedRewardsForWeek", [top_u(w)]) == maps["acc"].get(w, 0)
            assert self.q("getRemainingBoostedRewardsToDistribute", [top_u(w)]) == maps["rem"].get(w, 0)
            assert self.q("getFarmSupplyForWeek", [top_u(w)]) == maps["sup"].get(w, 0)
            assert self.q("getTotalEnergyForWeek", [top_u(w)]) == maps["energy"].get(w, 0)
        o["und"] = self.q("getUndistributedBoostedRewards")
        o["lastcol"] = from_top_u(store.get(b"lastUndistributedBoostedRewardsCollectWeek", b""))
        o["pct"] = self.q("getBoostedYieldsRewardsPercentage")
        o["last_global"] = self.q("getLastGlobalUpdateWeek")
        raw = store.get(b"boostedYieldsConfig", b"")
        if raw:
            d = Dec(raw)
            lw = d.u32()
            n = d.u32()
            slots = [[d.big() for _ in range(5)] for _ in range(n)]
            assert d.done()
            o["cfg"] = [lw, slots]
            r = vm.query(self.farm, "getBoostedYieldsFactors", [])
            assert r.ok
            dd = Dec(r.out[0])
            assert [dd.big() for _ in range(5)] == slots[-1]
        else:
            o["cfg"] = None
        o["utot"] = {u: self.q("getUserTotalFarmPosition", [self.addr[u]]) for u in USERS}
        o["supply"] = self.q("getFarmTokenSupply")
        o["state"] = self.q("getState")
        o["rate"] = self.q("getPerBlockRewardAmount")
        o["last_nonce"] = self.q("getLastRewardBlockNonce")
        o["produce"] = bool(store.get(b"produce_rewards_enabled", b""))
        held = {}
        for u in USERS:
            held[u] = {n: a for (t, n, a) in vm.tokens(self.addr[u]) if t == FARM and a > 0}
            for n in held[u]:
                if n not in self.owner_of:
                    b = vm.attrs(self.addr[u], FARM, n)
                    d = Dec(b)
                    d.big(); d.u64(); d.big(); d.big()
                    self.owner_of[n] = self.ids.get(d.addr(), -1)
        o["held"] = held
        o["owner_of"] = dict(self.owner_of)
        return o

    # ------------------------------------------------------------ execution
    def pays_ok(self, c, ps):
        need = {}
        for n, x in ps:
            if x <= 0:
                return False
            need[n] = need.get(n, 0) + x
        return len(ps) > 0 and all(self.last["held"].get(c, {}).get(n, 0) >= v for n, v in need.items())

    def exec(self, op):
        vm = self.vm
        A = self.addr
        k = op[0]
        pre = self.last
        if k == "Advance":
            self.blk += op[1]
            self.ep += op[2]
        else:
            self.blk += 1
        vm.block(nonce=self.blk, round_=self.blk, epoch=self.ep, ts=6 * self.blk)
        pays = lambda ps: [(FARM, n, x) for (n, x) in ps]
        active = pre["state"] == 1
        inp = dict(pre_ok=True, cur=None, pos=0, posa=0, full=0, supply=0)
        user = op[1] if k in USER_OPS else (op[2] if k == "UpdateEnergy" else None)
        if user is not None and user in USERS:
            inp["cur"] = self.energy_entry(user)
            inp["pos"] = pre["utot"][user]
        full = pre["rate"] * (self.blk - pre["last_nonce"]) if (pre["produce"] and self.blk > pre["last_nonce"]) else 0
        ret_b = None
        if k == "Advance":
            r = Result(0, "", [])
        elif k == "Energy":
            _, u, en, locked = op
            r = vm.call(A[OWNER], self.efact, "setUserEnergy", [A[u], top_u(en), top_u(locked)])
            assert r.ok
        elif k == "Enter":
            _, c, amt, adds = op
            # (the debug VM lets a zero-amount ESDT payment through; the protocol does not: never generated)
            inp["pre_ok"] = active and amt > 0 and (not adds or self.pays_ok(c, adds))
            r = vm.call(A[c], self.farm, "enterFarm", [], [(self.farming, 0, amt)] + pays(adds))
            if r.ok:
                ret_b = dec_payment(r.out[1])[2]
        elif k == "Claim":
            _, c, first, adds = op
            inp["pre_ok"] = active and self.pays_ok(c, [first] + adds)
            r = vm.call(A[c], self.farm, "claimRewards", [], pays([first] + adds))
        elif k == "Compound":
            _, c, first, adds = op
            inp["pre_ok"] = active and self.cfg["same"] and self.pays_ok(c, [first] + adds)
            r = vm.call(A[c], self.farm, "compoundRewards", [], pays([first] + adds))
        elif k == "Exit":
            _, c, p = op
            inp["pre_ok"] = active and self.pays_ok(c, [p])
            r = vm.call(A[c], self.farm, "exitFarm", [], pays([p]))
        elif k == "Merge":
            _, c, ps = op
            inp["pre_ok"] = active and self.pays_ok(c, ps)
            r = vm.call(A[c], self.farm, "mergeFarmTokens", [], pays(ps))
            if r.ok:
                ret_b = dec_payment(r.out[1])[2]
        elif k == "ClaimBoosted":
            _, c = op
            inp["pre_ok"] = active
            r = vm.call(A[c], self.farm, "claimBoostedRewards", [])
            if r.ok:
                ret_b = dec_payment(r.out[0])[2]
        elif k == "Transfer":
            _, n, s, d, amt = op
            r = vm.transfer(A[s], A[d], [(FARM, n, amt)])
        elif k == "SetRate":
            inp["pre_ok"] = op[1] == OWNER and op[2] != 0
            r = vm.call(A[op[1]], self.farm, "setPerBlockRewardAmount", [top_u(op[2])])
        elif k == "Start":
            r = vm.call(A[op[1]], self.farm, "startProduceRewards", [])
        elif k == "End":
            inp["pre_ok"] = op[1] == OWNER
            r = vm.call(A[op[1]], self.farm, "endProduceRewards", [])
        elif k == "SetPct":
            r = vm.call(A[op[1]], self.farm, "setBoostedYieldsRewardsPercentage", [top_u(op[2])])
        elif k == "SetFactors":
            _, c, fac = op
            r = vm.call(A[c], self.farm, "setBoostedYieldsFactors", [top_u(x) for x in fac])
        elif k == "Collect":
            r = vm.call(A[op[1]], self.farm, "collectUndistributedBoostedRewards", [])
        elif k == "UpdateEnergy":
            r = vm.call(A[op[1]], self.farm, "updateEnergyForUser", [A[op[2]]])
        elif k == "SetState":
            r = vm.call(A[op[1]], self.farm, "resume" if op[2] == 1 else "pause", [])
        else:
            raise ValueError(k)
        o = self.observe()
        o["ok"], o["msg"] = r.ok, r.msg
        o["ret_b"] = ret_b
        # (a failed settlement reverts; the model gets the would-be emission as well and must fail on its own)
        inp["full"] = full if k in SETTLING else 0
        inp["supply"] = o["supply"]
        if user is not None and user in USERS:
            inp["posa"] = o["utot"][user]
        o["inp"] = inp
        cw = o["week"]
        # per-week boosted payments = decrease of the completed weeks' pools (sweeps are not payments)
        paid = {}
        if r.ok and k != "Collect":
            for w in set(pre["acc"]) | set(pre["rem"]):
                if w < cw:
                    d = pre["acc"].get(w, 0) + pre["rem"].get(w, 0) - o["acc"].get(w, 0) - o["rem"].get(w, 0)
                    if d != 0:
                        paid[w] = d
        o["paid"] = paid
        o["b"] = sum(paid.values())
        o["cut"] = (o["acc"].get(cw, 0) - pre["acc"].get(cw, 0)) if (r.ok and k != "Advance") else 0
        o["pre"] = pre
        self.ghost(op, o, pre)
        o["ghost"] = dict(frozen=dict(self.g_frozen), paid=dict(self.g_paid), swept=dict(self.g_swept), und=self.g_und,
                          cuts=dict(self.g_cuts), faclog=list(self.g_faclog),
                          claimed={f"{u}:{w}": n for (u, w), n in self.g_claimed.items()})
        self.last = {x: v for x, v in o.items() if x not in ("pre", "ghost", "inp", "expected")}
        return o

    # ------------------------------------------------------------ ghost ledger for the monitors
    def factors_for(self, w):
        """documented meaning of 'the factors of week w': the last accepted setBoostedYieldsFactors
        of a week <= w (the first ever accepted one for earlier weeks)"""
        log = self.g_faclog
        if not log:
            return None
        f = log[0][1]
        for wk, fac in log:
            if wk <= w:
                f = fac
        return f

    def ghost(self, op, o, pre):
        k = op[0]
        if not o["ok"]:
            return
        cw = o["week"]
        if o["cut"]:
            self.g_cuts[cw] = self.g_cuts.get(cw, 0) + o["cut"]
        # freezing of a week's pool: totalRewardsForWeek goes from empty to set
        o["froze"] = {}
        for w, r in o["rewards"].items():
            if r and not pre["rewards"].get(w):
                o["froze"][w] = r[0]
                if w not in self.g_frozen:
                    self.g_frozen[w] = r[0]
        if k in USER_OPS:
            o["expected"] = expected_claim(self, op, o, pre)
            o["claimed_before"] = {w: self.g_claimed.get((op[1], w), 0) for w in o["paid"]}
            for w, x in o["paid"].items():
                self.g_paid[w] = self.g_paid.get(w, 0) + x
                if x > 0:
                    self.g_claimed[(op[1], w)] = self.g_claimed.get((op[1], w), 0) + 1
        if k == "Collect":
            o["swept_now"] = {}
            for w in range(pre["lastcol"] + 1, o["lastcol"] + 1):
                x = pre["acc"].get(w, 0) + pre["rem"].get(w, 0)
                o["swept_now"][w] = x
                o.setdefault("swept_before", {})[w] = w in self.g_swept
                self.g_swept[w] = self.g_swept.get(w, 0) + x
                self.g_und += x
        if k == "SetFactors":
            self.g_faclog.append((cw, list(op[2])))


def formula(fac, R, f, F, e, E):
    """the documented rational value min(maxF*R*f/F, R*(cE*e/E + cF*f/F)/(cE+cF)); None if undefined"""
    mx, ce, cf, mine, minf = fac
    if E == 0 or F == 0 or e < mine or f < minf or R == 0:
        return Fraction(0)
    if ce + cf == 0:
        return None
    a = Fraction(mx * R * f, F)
    b = R * (Fraction(ce * e, E) + Fraction(cf * f, F)) / (ce + cf)
    return min(a, b)


def formula_floor(fac, R, f, F, e, E):
    mx, ce, cf, mine, minf = fac
    if E == 0 or F == 0 or e < mine or f < minf or R == 0:
        return 0
    if ce + cf == 0:
        return None
    return min(mx * R * f // F, (R * ce * e // E + R * cf * f // F) // (ce + cf))


def expected_claim(w_, op, o, pre):
    """What the property text promises for the user's boosted settlement in this operation, from the
    REAL views: the user's pre-operation claim progress and total farm position, the weeks' total
    energy / farm supply / frozen pool, the factors that were the latest ones when the week ended."""
    u = op[1]
    cw = o["week"]
    pg = pre["prog"].get(u)
    f = pre["utot"].get(u, 0)
    weeks = []
    if pg is not None and pre["cfg"] is not None:
        start = max(pg[3], cw - MAX_CLAIM_WEEKS)
        for w in range(start, cw):
            e = decayed(pg, w)
            E = pre["energy"].get(w, 0)
            F = pre["sup"].get(w, 0)
            fac = w_.factors_for(w)
            rw = o["rewards"].get(w)
            R = rw[0] if rw else pre["acc"].get(w, 0)
            weeks.append(dict(w=w, e=e, E=E, F=F, f=f, R=R, fac=fac, x=formula(fac, R, f, F, e, E),
                              fl=formula_floor(fac, R, f, F, e, E)))
    return weeks


# ------------------------------------------------------------------ Coq emission
def coq_en(cur):
    return f"(mkEn {zlit(cur[0])} {cur[1]} {cur[2]})"


def coq_fac(fac):
    return "(mkFac " + " ".join(str(x) for x in fac) + ")"


def cb(b):
    return "true" if b else "false"


def coq_op(op, o):
    k = op[0]
    i = o["inp"]
    if k == "Advance":
        return f"BAdvance {op[2]}"
    if k in ("Energy", "Transfer", "Start", "SetState"):
        return None
    if k in ("Enter", "Claim", "Compound", "ClaimBoosted"):
        name = dict(Enter="BEnter", Claim="BClaim", Compound="BCompound", ClaimBoosted="BClaimBoosted")[k]
        return f"{name} {cb(i['pre_ok'])} {op[1]} {coq_en(i['cur'])} {i['pos']} {i['full']} {i['supply']}"
    if k == "Exit":
        return f"BExit {cb(i['pre_ok'])} {op[1]} {coq_en(i['cur'])} {i['pos']} {i['posa']} {i['full']} {i['supply']}"
    if k == "Merge":
        return f"BMerge {cb(i['pre_ok'])} {op[1]} {coq_en(i['cur'])} {i['pos']}"
    if k in ("SetRate", "End"):
        return f"BSettle {cb(i['pre_ok'])} {i['full']}"
    if k == "SetPct":
        return f"BSetPct {op[1]} {op[2]} {i['full']}"
    if k == "SetFactors":
        return f"BSetFactors {op[1]} {coq_fac(op[2])}"
    if k == "Collect":
        return f"BCollect {op[1]}"
    if k == "UpdateEnergy":
        return f"BUpdateEnergy {op[2]} {coq_en(i['cur'])}"
    raise ValueError(k)


def coq_pairs(items):
    return "[" + "; ".join(f"({zlit(k)}, {zlit(v)})" for k, v in items) + "]"


def obs_weeks(o):
    cw = o["week"]
    ws = set(range(max(1, cw - WINDOW), cw + 1))
    for m in ("acc", "rem"):
        for src in (o, o["pre"]):
            ws |= {w for w, v in src[m].items() if v}
    return sorted(ws)


def coq_obs(o):
    ws = obs_weeks(o)
    win = [w for w in ws if w >= o["week"] - WINDOW]
    cfg = "[]"
    if o["cfg"] is not None:
        cfg = "[" + "; ".join(str(x) for x in [o["cfg"][0]] + [y for s in o["cfg"][1] for y in s]) + "]"
    prog = "[" + "; ".join(f"({u}, [{'; '.join(zlit(x) for x in (p or []))}])" for u, p in sorted(o["prog"].items())) + "]"
    rewards = coq_pairs([(w, (o["rewards"][w][0] if o["rewards"].get(w) else -1)) for w in win])
    return (f"mkBObs {cb(o['ok'])} {zlit(o['b'])} {o['week']} {o['last_global']} {o['und']} {o['lastcol']} {o['pct']} {cfg} "
            f"{coq_pairs([(w, o['acc'].get(w, 0)) for w in ws])} {coq_pairs([(w, o['rem'].get(w, 0)) for w in ws])} "
            f"{coq_pairs([(w, o['sup'].get(w, 0)) for w in win])} {coq_pairs([(w, o['energy'].get(w, 0)) for w in win])} "
            f"{rewards} {prog}")


def coq_history(cfg, trace):
    items = []
    for op, o in trace:
        c = coq_op(op, o)
        if c is not None:
            items.append(f"({c}, {coq_obs(o)})")
    return f"(check_trace (init_b {cfg.get('epoch0', 5)}) 0 [\n    " + ";\n    ".join(items) + "])"


# ------------------------------------------------------------------ generation
def log_amount(rng, hi=10 ** 24):
    e = rng.uniform(0, len(str(hi)) - 1)
    return max(1, int(10 ** e) + rng.randint(0, 9))


def gen_cfg(rng):
    return dict(dsc=rng.choice([10 ** 6, 10 ** 12, 10 ** 12, 10 ** 18]), same=rng.random() < 0.65,
                rate=rng.choice([1000, 10 ** 6, 10 ** 9, 10 ** 18, log_amount(rng, 10 ** 15) + 100]),
                epoch0=rng.choice([0, 5, 5, 13, 100]), scale=rng.choice([1, 10 ** 3, 10 ** 6, 10 ** 12, 10 ** 18]),
                late_factors=rng.random() < 0.2)


def gen_factors(rng, scale):
    if rng.random() < 0.06:
        return [rng.choice([1, 2]), 0, 0, 1, 1]                     # cE = cF = 0: must be rejected by the setter
    return [rng.choice([0, 1, 1, 2, 2, 2, 3, 3, 10, 1000]), rng.choice([0, 1, 3, 3, 7]), rng.choice([0, 1, 2, 2, 5]),
            rng.choice([1, 1, 10, 1000, 10 ** 6]), rng.choice([1, 1, 2, 100, scale, 5 * scale])]


def gen_energy(rng, scale, fac=None):
    cls = rng.random()
    if fac is not None and rng.random() < 0.22:
        # boundary of the minimum-energy threshold of the latest factors; no tokens, so it does not decay
        return max(0, fac[3] + rng.choice([0, 0, 0, -1, 1])), 0
    tok = log_amount(rng, 10 ** 9) * rng.choice([1, 1, scale])
    if cls < 0.62:
        return tok * rng.randint(60, 1440) + rng.randint(0, tok), tok       # long lock
    if cls < 0.74:
        return tok * rng.randint(1, 30) + rng.choice([0, 1, tok - 1]), tok  # runs out within the window
    if cls < 0.8:
        return rng.choice([1, 5, 9, 999]), rng.choice([0, 1])               # below typical minimum energies
    if cls < 0.9:
        return 0, tok
    return log_amount(rng, 10 ** 12), 0


def positions_of(w, u):
    return sorted(w.last["held"].get(u, {}).items())


def gen_user_op(rng, w, c, kind=None, must=None):
    """a (mostly valid) operation of user c; `must` = a nonce that has to be among the payments"""
    mine = positions_of(w, c)
    scale = w.cfg["scale"]
    part = lambda v: v if rng.random() < 0.6 else rng.randint(1, v)
    if kind is None:
        roll = rng.random()
        kind = ("Enter" if roll < 0.22 else "Claim" if roll < 0.44 else "Exit" if roll < 0.56 else "Merge" if roll < 0.66
                else "ClaimBoosted" if roll < 0.80 else "Compound")
    if not mine and kind != "ClaimBoosted":
        kind = "Enter"
    if kind == "Compound" and not w.cfg["same"] and rng.random() < 0.85:
        kind = "Claim"

    def pick(maxn):
        sel = rng.sample(mine, min(len(mine), rng.choice(maxn)))
        if must is not None:
            sel = [(n, v) for n, v in mine if n == must] + [(n, v) for n, v in sel if n != must]
        return [(n, part(v)) for n, v in sel]

    if kind == "Enter":
        amt = rng.choice([1, rng.randint(1, 100), scale, log_amount(rng, 10 ** 6) * scale, log_amount(rng, 10 ** 6) * scale])
        cfgo = w.last.get("cfg")
        if cfgo is not None and rng.random() < 0.2:
            # total position exactly at (or one off) the minimum farm amount of the latest factors
            need = cfgo[1][-1][4] - w.last["utot"].get(c, 0)
            if need + 1 > 0:
                amt = max(1, need + rng.choice([0, 0, -1, 1]))
        adds = pick([1, 1, 2]) if (mine and (must is not None or rng.random() < 0.3)) else []
        return ["Enter", c, amt, adds]
    if kind in ("Claim", "Compound"):
        ps = pick([1, 1, 1, 2, 3])
        return [kind, c, ps[0], ps[1:]]
    if kind == "Exit":
        ps = pick([1])
        return ["Exit", c, ps[0]]
    if kind == "Merge":
        return ["Merge", c, pick([1, 2, 2, 3])]
    return ["ClaimBoosted", c]


def pick_receiver(rng, o, src, cw_after=False):
    """mostly a user whose recorded claim progress is behind the current week (he still has completed weeks to settle)"""
    others = [u for u in USERS if u != src]
    withp = [u for u in others if o["prog"].get(u)]
    behind = [u for u in withp if cw_after or o["prog"][u][3] < o["week"]]
    r = rng.random()
    if behind and r < 0.75:
        return rng.choice(behind)
    if withp and r < 0.9:
        return rng.choice(withp)
    return rng.choice(others)


def gen_op(rng, w):
    o = w.last
    cfg = w.cfg
    scale = cfg["scale"]
    script = w.__dict__.setdefault("script", [])
    if script:
        nxt = script.pop(0)
        return nxt(rng, w) if callable(nxt) else nxt
    st = w.__dict__.setdefault("stage", 0)
    # ---- bring-up: percentage, factors, energies, first positions
    if st == 0:
        w.stage = 1
        first = ["SetPct", OWNER, rng.choice([2500, 2500, 5000, 1, 100, 9999, 10000])]
        second = ["SetFactors", OWNER, gen_factors(rng, scale)]
        if cfg["late_factors"]:
            # percentage > 0 while no factors are configured: users enter / settle / compound before the first setting
            for u in USERS:
                if rng.random() < 0.9:
                    en, tok = gen_energy(rng, scale, second[2])
                    script.append(["Energy", u, en, tok])
            for u in rng.sample(USERS, rng.choice([2, 3, 4])):
                script.append((lambda uu: (lambda r, ww: gen_user_op(r, ww, uu, "Enter")))(u))
            for _ in range(rng.choice([2, 3, 4])):
                script.append((lambda r, ww: gen_user_op(r, ww, r.choice(USERS), r.choice(["Compound", "Compound", "Claim", "Exit", "Compound", "ClaimBoosted"]))))
            if rng.random() < 0.5:
                script.append(["Advance", 10, EPOCHS_IN_WEEK])
                script.append((lambda r, ww: gen_user_op(r, ww, r.choice(USERS), r.choice(["Compound", "Claim", "Enter"]))))
            script.append(second)
            return first
        if rng.random() < 0.3:
            first, second = second, first
        script.append(second)
        for u in USERS:
            if rng.random() < (0.95 if u <= 3 else 0.5):
                en, tok = gen_energy(rng, scale, second[2] if second[0] == "SetFactors" else first[2])
                script.append(["Energy", u, en, tok])
        for u in rng.sample(USERS, rng.choice([2, 3, 3, 4])):
            script.append((lambda uu: (lambda r, ww: gen_user_op(r, ww, uu, "Enter")))(u))
        return first
    roll = rng.random()
    if not w.__dict__.get("slept") and o["cfg"] is not None and rng.random() < 0.03:
        # long absence: one user sleeps for 6..8 weeks while another one settles every week, then the sleeper returns
        # (claim_multi skips the weeks outside the window with advance_multiple_weeks: the recorded energy must decay over them)
        w.slept = True
        sleeper, active = rng.sample(USERS[:3], 2)
        for _ in range(rng.choice([6, 6, 7, 8])):
            script.append(["Advance", rng.choice([1, 10, 100]), EPOCHS_IN_WEEK])
            script.append((lambda aa: (lambda r, ww: gen_user_op(r, ww, aa, r.choice(["ClaimBoosted", "Claim", "Enter"]))))(active))
        script.append((lambda ss: (lambda r, ww: gen_user_op(r, ww, ss, r.choice(["ClaimBoosted", "Claim", "Exit", "Enter"]))))(sleeper))
        return ["Advance", rng.choice([1, 10]), 0]
    if o["cfg"] is None and roll < 0.25:
        return ["SetFactors", OWNER, gen_factors(rng, scale)]
    if o["state"] != 1 and roll < 0.7:
        return ["SetState", OWNER, 1]
    users_with_pos = [u for u in USERS if o["held"].get(u)]
    # users with a recorded claim progress (energy) act three times as often
    weighted = [u for u in users_with_pos for _ in range(3 if o["prog"].get(u) else 1)]
    # ---- time
    if roll < 0.15:
        weeks = rng.choice([1, 1, 1, 1, 1, 1, 1, 2, 2, 3, 4, 5, 6, 7])
        if rng.random() < 0.15:
            return ["Advance", rng.choice([1, 10, 100]), rng.choice([0, 1, 3, 6])]
        # a week change is followed by some users settling, so that pools freeze and progress moves
        if users_with_pos and rng.random() < 0.85:
            for u in sorted(set(rng.choice(weighted) for _ in range(rng.choice([1, 2, 3, 3])))):
                script.append((lambda uu: (lambda r, ww: gen_user_op(r, ww, uu, r.choice(["ClaimBoosted", "Claim", "ClaimBoosted", "Enter", "Exit", "Merge", "Compound"]))))(u))
        # ... sometimes right after new factors were set, so that the completed week keeps the old ones
        if o["cfg"] is not None and rng.random() < 0.3:
            script.insert(0, ["SetFactors", OWNER, gen_factors(rng, scale)])
        # ... or by a position changing hands in the new week before the receiver has settled the old one
        if users_with_pos and rng.random() < 0.6:
            src = rng.choice(users_with_pos)
            n, v = rng.choice(positions_of(w, src))
            dst = pick_receiver(rng, o, src, cw_after=True)
            kinds = ["Compound", "Compound", "Compound", "Claim", "Enter", "Merge", "Exit"] if cfg["same"] else ["Claim", "Claim", "Enter", "Merge", "Exit", "Compound"]
            pos = 0 if rng.random() < 0.85 else rng.randint(0, len(script))
            scen = []
            if rng.random() < 0.5:
                scen.append(["ClaimBoosted", src])
            scen.append(["Transfer", n, src, dst, v if rng.random() < 0.7 else rng.randint(1, v)])
            scen.append((lambda dd, nn, kk: (lambda r, ww: gen_user_op(r, ww, dd, r.choice(kk), must=nn)))(dst, n, kinds))
            script[pos:pos] = scen
        return ["Advance", rng.choice([1, 10, 100, 1000]), EPOCHS_IN_WEEK * weeks + rng.choice([0, 0, 0, 1, 3])]
    if roll < 0.20:
        u = rng.choice(USERS)
        en, tok = gen_energy(rng, scale, o["cfg"][1][-1] if o["cfg"] is not None else None)
        return ["Energy", u, en, tok]
    # ---- admin
    if roll < 0.30:
        kind = rng.random()
        who = rng.choice([OWNER] * 5 + USERS[:2])
        if kind < 0.30:
            return ["SetFactors", who, gen_factors(rng, scale) if rng.random() < 0.78 else [1, 1, 1, rng.choice([0, 0, 1]), rng.choice([0, 1])]]
        if kind < 0.45:
            return ["SetPct", who, rng.choice([0, 1, 2500, 2500, 5000, 9999, 10000, 10001])]
        if kind < 0.80:
            return ["Collect", who]
        if kind < 0.86:
            return ["SetRate", who, rng.choice([0, 1000, 10 ** 6, log_amount(rng, 10 ** 12)])]
        if kind < 0.90:
            script.append(["Start", OWNER])
            return ["End", who]
        if kind < 0.95:
            script.append(["SetState", OWNER, 1])
            if users_with_pos:
                script.insert(0, gen_user_op(rng, w, rng.choice(users_with_pos)))
            return ["SetState", who, 0]
        return ["UpdateEnergy", rng.choice(USERS), rng.choice(USERS)]
    if roll < 0.33:
        return ["UpdateEnergy", rng.choice(USERS), rng.choice(USERS)]
    # ---- position transfer, then the receiver interacts with the received token
    if roll < 0.45 and users_with_pos:
        src = rng.choice(users_with_pos)
        n, v = rng.choice(positions_of(w, src))
        dst = pick_receiver(rng, o, src)
        amt = v if rng.random() < 0.7 else rng.randint(1, v)
        if rng.random() < 0.5:
            # the sender settles first (claims his boosted rewards of the completed weeks)
            script.append(["Transfer", n, src, dst, amt])
            follow = (lambda dd, nn: (lambda r, ww: gen_user_op(r, ww, dd, r.choice(["Claim", "Compound", "Compound", "Enter", "Merge", "Exit"]), must=nn)))(dst, n)
            script.append(follow)
            return ["ClaimBoosted", src]
        if rng.random() < 0.8:
            follow = (lambda dd, nn: (lambda r, ww: gen_user_op(r, ww, dd, r.choice(["Claim", "Compound", "Compound", "Enter", "Merge", "Exit"]), must=nn)))(dst, n)
            script.append(follow)
        return ["Transfer", n, src, dst, amt]
    # ---- malformed / out-of-phase user calls
    if roll < 0.50:
        c = rng.choice(USERS)
        kind = rng.random()
        mine = positions_of(w, c)
        others = [(n, v) for u in USERS if u != c for n, v in positions_of(w, u)]
        if kind < 0.3 and mine:
            n, v = rng.choice(mine)
            return ["Exit", c, (n, v + 1)] if rng.random() < 0.5 else ["Claim", c, (n, v + 1), []]
        if kind < 0.6 and others:
            n, v = rng.choice(others)
            return ["Exit", c, (n, v)] if (n, v) not in mine else ["ClaimBoosted", c]
        if kind < 0.8 and mine:
            n, v = rng.choice(mine)
            return ["Merge", c, [(n, v), (n, 1)]]
        return ["ClaimBoosted", c]
    c = rng.choice(weighted) if (weighted and rng.random() < 0.85) else rng.choice(USERS)
    return gen_user_op(rng, w, c)


def normalize(op):
    """ops read back from JSON replays: payments as tuples"""
    k = op[0]
    t = lambda p: (p[0], p[1])
    if k == "Enter":
        return [k, op[1], op[2], [t(p) for p in op[3]]]
    if k in ("Claim", "Compound"):
        return [k, op[1], t(op[2]), [t(p) for p in op[3]]]
    if k == "Exit":
        return [k, op[1], t(op[2])]
    if k == "Merge":
        return [k, op[1], [t(p) for p in op[2]]]
    return list(op)


def gen_history(seed, nops, world=BoostWorld):
    rng = random.Random(seed)
    cfg = gen_cfg(rng)
    w = world(cfg)
    trace = []
    try:
        for _ in range(nops):
            op = normalize(gen_op(rng, w))
            trace.append((op, w.exec(op)))
    finally:
        w.close()
    return cfg, trace


def replay_history(cfg, ops, world=BoostWorld):
    w = world(cfg)
    trace = []
    try:
        for op in ops:
            op = normalize(op)
            trace.append((op, w.exec(op)))
    finally:
        w.close()
    return trace
