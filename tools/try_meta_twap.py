#!/usr/bin/env python3
"""Standalone driver for the metastaking world with an independent safe-price reference (no framework needed):

    python3 tools/try_meta_twap.py [N histories=150] [ops per history=40] [seed=1] [--no-coq] [--show K] [--focus] [--errors] [--replay]

Runs N generated histories on the real contracts (MXVM_BIN selects an executor built against another tree; with
VERIF_REPO=<tree> the executor is built against that tree the way tools/framework.py build_harness() does), evaluates
every monitor of tools/props/c15_twap_common.py on every observation, evaluates law L7 (Run/MetaTwapRun.check_twap) on
every ledger and prints the counters, the monitor failures grouped by key and the correspondence mismatches.
--replay re-executes the replay dict of the first failure of every key (through a JSON round trip) and prints what
the replay reports.  Exit status 1 when anything was reported."""
import os, sys, collections, json, time
sys.path.insert(0, os.path.dirname(os.path.abspath(__file__)))


def main():
    args, opts, it = [], {}, iter(sys.argv[1:])
    for a in it:
        if a in ("--show",):
            opts[a] = next(it)
        elif a.startswith("--"):
            opts[a] = True
        else:
            args.append(a)
    nh = int(args[0]) if len(args) > 0 else 150
    nops = int(args[1]) if len(args) > 1 else 40
    seed = int(args[2]) if len(args) > 2 else 1
    show = int(opts.get("--show", 2))
    if os.environ.get("VERIF_REPO") and not os.environ.get("MXVM_BIN"):
        import framework
        ok, out = framework.build_harness()
        if not ok:
            print("executor build failed:\n" + out[-3000:])
            return 2
    from props import c15_twap_common as tc
    t0 = time.time()
    ex = tc.explore_twap("TRY", "quick", seed, model_ok="--no-coq" not in opts, focus="--focus" in opts, scale=(nh, nops))
    dt = time.time() - t0
    c = ex.counters
    print(f"executor: {os.environ.get('MXVM_BIN', 'default (/repo)')}")
    print(f"histories {ex.histories}  operations {ex.evaluations}  distinct non-trivial classes {len(ex.nontrivial)}  ({dt:.1f} s)")
    ok, err = c.get("twap:ops:ok", 0), c.get("twap:ops:err", 0)
    print(f"  ops {ok + err}  ok {ok}  err {err}  success {100.0 * ok / max(1, ok + err):.1f}%")
    print("counters:")
    for k in sorted(c):
        if k.startswith("err:") and "--errors" not in opts:
            continue
        print(f"  {k:84s} {c[k]}")
    by = collections.OrderedDict()
    for f in ex.failures:
        by.setdefault(f["key"], []).append(f)
    print(f"monitor failures: {len(ex.failures)} in {len(by)} keys")
    for k, fs in by.items():
        hs = len({f["replay"]["seed"] for f in fs})
        print(f"  {k}: {len(fs)} (in {hs} histories)")
        for f in fs[:show]:
            print(f"      seed {f['replay']['seed']} op#{len(f['replay']['ops'])}: {f['what'][:900]}")
        if "--replay" in opts:
            data = json.loads(json.dumps(dict(replay=fs[0]["replay"]), default=str))
            got = tc.replay_twap(data)
            keys = collections.Counter(g["key"] for g in got)
            print(f"      replay of the first one (system={data['replay']['system']}, {len(data['replay']['ops'])} ops): "
                  f"{'REPRODUCED' if k in keys else 'NOT reproduced'} {dict(keys)}")
    print(f"traces replayed in Coq: {ex.traces_validated}   correspondence mismatches: {len(ex.disagreements)}")
    fields = collections.Counter((d.get("where"), d.get("field")) for d in ex.disagreements)
    if fields:
        print("  by (checker, field):", dict(fields))
    for d in ex.disagreements[:show + 2]:
        if "index" not in d:
            print("  ", d)
            continue
        tw = d["observed"]["meas"]["tw"]
        print(f"  {d['where']} seed {d['seed']} item {d['index']} field {d['field']} model {d['model']} impl {d['impl']} op {d['op']} "
              f"window {tw['win']} opener {tw['opener']}")
    return 1 if (ex.failures or ex.disagreements) else 0


if __name__ == "__main__":
    sys.exit(main())
