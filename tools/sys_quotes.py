"""C20 tie: quotes versus execution on the REAL contracts, for the five subsystems the property names.

Nothing is deployed here: the worlds, generators and Gallina emitters of the subsystems are reused
(sys_pair / sys_farm / sys_staking / sys_locking / sys_pricediscovery).  What this module adds is the
*probe*: right before a quotable operation, in the same block,

    digest(contract storage + balances)  ->  vm.query(view)  ->  digest again  ->  execute the operation

and the observation of the operation gets `q20` = the list of probes made before it
(dict(view, args.., ok, msg, v, unchanged)).  Histories are emitted for coq/Run/QuotesRun.v, whose
checkers replay the subsystem model and evaluate the model's view at the same points.
"""
import random
from vmx import *
import sys_pair as sp
import sys_farm as sf
import sys_staking as ss
import sys_locking as sl
import sys_pricediscovery as spd

SYSTEMS = ("pair", "farm", "staking", "locking", "pd")
REAL_ONLY = ("lfarm",)          # dex/farm-with-locked-rewards: monitored on the real contracts only (no model replay)
IMPORTS = {
    "pair": "Base.Prelude Gen.Params Model.Pair Run.PairRun Model.Quotes Run.QuotesRun",
    "farm": "Base.Prelude Gen.Params Model.Farm Run.FarmRun Model.Quotes Run.QuotesRun",
    "staking": "Base.Prelude Gen.Params Model.Staking Run.StakingRun Model.Quotes Run.QuotesRun",
    "locking": "Base.Prelude Gen.Params Model.Penalty Run.EnergyRun Model.Quotes Run.QuotesRun",
    "pd": "Base.Prelude Gen.Params Model.PriceDiscovery Run.PriceDiscoveryRun Model.Quotes Run.QuotesRun",
}


def zlit(n):
    return f"({n})" if n < 0 else str(n)


def cb(b):
    return "true" if b else "false"


def qview(vm, accounts, to, func, args):
    """the probe: (result, storage-and-balances unchanged by the query)"""
    d0 = vm.digest(accounts)
    r = vm.query(to, func, args)
    d1 = vm.digest(accounts)
    return r, d0 == d1


def uval(r):
    return from_top_u(r.out[0]) if (r.ok and r.out) else 0


# ====================================================================== pair
def pair_probe(w, op, rng):
    vm, T = w.vm, sp.T
    acc = [w.pair, w.pair2, w.coll]
    qs = []

    def q(kind, tok, amt, func, args):
        r, same = qview(vm, acc, w.pair, func, args)
        if kind == 2:
            v = [dec_payment(x)[2] for x in r.out] if r.ok else [0, 0]
        else:
            v = [uval(r), 0]
        qs.append(dict(view=func, kind=kind, tok=tok, amt=amt, ok=r.ok, msg=r.msg, v=v, unchanged=same))

    k = op[0]
    if k == "SwapIn":
        q(0, op[2], op[3], "getAmountOut", [T[op[2]], top_u(op[3])])
    elif k == "SwapOut":
        q(1, op[4], op[5], "getAmountIn", [T[op[4]], top_u(op[5])])
    elif k == "Remove":
        q(2, 0, op[2], "getTokensForGivenPosition", [top_u(op[2])])
    elif k == "Add":
        q(3, 1, op[2], "getEquivalent", [T[1], top_u(op[2])])
    # guard classes of the views themselves (zero input, unknown token, amount at/above the reserve)
    if rng.random() < 0.08:
        s = w.last
        tok = rng.choice([1, 2, 3])
        cls = rng.random()
        if cls < 0.3:
            q(0, tok, 0, "getAmountOut", [T[tok], top_u(0)])
        elif cls < 0.5:
            q(1, tok, 0, "getAmountIn", [T[tok], top_u(0)])
        elif cls < 0.8:
            res = s["r1"] if tok == 1 else s["r2"]
            amt = max(0, res + rng.choice([-1, 0, 1]))
            q(1, tok, amt, "getAmountIn", [T[tok], top_u(amt)])
        else:
            amt = sp.log_amount(rng)
            q(0, tok, amt, "getAmountOut", [T[tok], top_u(amt)])
    return qs


def pair_gen_op(rng, w, stats):
    op = sp.gen_op(rng, w, stats)
    s = w.last
    r = rng.random()
    users = list(range(1, sp.NUSERS + 1))
    if s["S"] == 0 and r < 0.12:
        # quotes and operations against an empty pool: both sides must refuse
        c = rng.choice(users)
        kind = rng.random()
        if kind < 0.4:
            return ["SwapIn", c, rng.choice([1, 2]), sp.log_amount(rng, 10 ** 9), rng.choice([1, 2]), 1]
        if kind < 0.8:
            return ["SwapOut", c, rng.choice([1, 2]), 10 ** 12, rng.choice([1, 2]), sp.log_amount(rng, 10 ** 6)]
        return ["Remove", c, sp.log_amount(rng, 10 ** 6), 1, 1]
    if op[0] == "SwapIn":
        if r < 0.55:
            op[5] = 1                      # the quoted mode: "at least 1"
        elif r > 0.97:
            op[2] = 3                      # unknown input token
    elif op[0] == "Remove" and r < 0.6:
        op[3] = op[4] = 1
    return op


def pair_history(seed, nops, ops=None, cfg=None):
    rng = random.Random(seed)
    if cfg is None:
        cfg = sp.gen_cfg(rng)
    w = sp.PairWorld(cfg)
    trace, stats = [], {}
    try:
        for i in range(len(ops) if ops is not None else nops):
            op = list(ops[i]) if ops is not None else pair_gen_op(rng, w, stats)
            qs = pair_probe(w, op, rng) if op[0] != "Round" else []
            o = w.exec(op)
            if o is not None:
                o["q20"] = qs
            trace.append((op, o))
    finally:
        w.close()
    return cfg, trace


def pair_coq(cfg, trace):
    items = []
    for op, o in trace:
        if o is None:
            continue
        qs = "; ".join(f"RPair.PQ {q['kind']} {q['tok']} {q['amt']} {cb(q['ok'])} {q['v'][0]} {q['v'][1]}" for q in o["q20"])
        items.append(f"({sp.coq_op(op)}, {sp.coq_obs(o)}, [{qs}])")
    return f"(RPair.trace {sp.coq_init(cfg)} 0 [\n    " + ";\n    ".join(items) + "])"


# ====================================================================== dex/farm
def farm_probe(w, op, rng, system="farm"):
    vm, A = w.vm, w.addr
    qs = []
    if op[0] != "Claim":
        return qs
    c, (n, x) = op[1], op[2]
    raw = vm.attrs(A[c], sf.FARM, n)
    if not raw:
        return qs
    args = [A[c], top_u(x), raw]
    r, same = qview(vm, [w.farm], w.farm, "calculateRewardsForGivenPosition", args)
    q = dict(view="calculateRewardsForGivenPosition", user=c, x=x, rps=sf.dec_attrs(raw)[0], ok=r.ok, msg=r.msg,
             v=uval(r), unchanged=same, blk=w.blk, tx_ok=None)
    if rng.random() < 0.06:
        # require_queried: the same call inside a transaction must be refused
        t = vm.call(A[c], w.farm, "calculateRewardsForGivenPosition", args)
        q["tx_ok"] = t.ok
    qs.append(q)
    return qs


def farm_gen_op(rng, w):
    op = sf.gen_op(rng, w)
    if op[0] == "Time" and op[2] >= 7:
        w.c20_fresh = set(range(1, sf.NUSERS + 1))
    if w.cfg.get("boost") and getattr(w, "boost_stage", 0) >= 5 and op[0] not in ("SetRate", "SetState", "Start") \
            and rng.random() < 0.09:
        w.c20_fresh = set(range(1, sf.NUSERS + 1))
        return ["Time", rng.choice([1, 5, 50]), rng.choice([7, 7, 7, 8, 14])]     # next week: boosted rewards become claimable
    fresh = getattr(w, "c20_fresh", None)
    pend = w.__dict__.setdefault("c20_pending", [])
    if pend:
        return pend.pop(0)
    if w.shadow["rate"] != 0 and not w.shadow["produce"] and rng.random() < 0.5:
        # production is stopped: what was settled before the stop is still owed - quote and claim while stopped
        cands = [u for u in range(1, sf.NUSERS + 1) if sf.positions_of(w, u)]
        if cands:
            c = rng.choice(cands)
            n, v = rng.choice(sf.positions_of(w, c))
            return ["Claim", c, (n, v if rng.random() < 0.5 else rng.randint(1, v)), []]
    if w.shadow["rate"] != 0 and w.shadow["produce"] and w.last["supply"] > 0 and rng.random() < 0.04:
        # scripted: blocks pass, the owner stops production (which settles them), then a quoted claim while stopped
        cands = [u for u in range(1, sf.NUSERS + 1) if sf.positions_of(w, u)]
        if cands:
            c = rng.choice(cands)
            n, v = rng.choice(sf.positions_of(w, c))
            pend.extend([["End", sf.OWNER], ["Claim", c, (n, v if rng.random() < 0.5 else rng.randint(1, v)), []]])
            return ["Time", rng.choice([1, 3, 10, 100]), 0]
    if fresh and len(fresh) >= 2 and w.cfg.get("boost") and rng.random() < 0.3:
        # a position changes hands in a new week and the RECEIVER (who has not settled this week yet) gets the quote and claims:
        # the quote must contain the receiver's boosted part, not the previous owner's
        cands = [u for u in fresh if sf.positions_of(w, u)]
        if cands:
            c = rng.choice(sorted(cands))
            d = rng.choice(sorted(u for u in fresh if u != c))
            n, v = rng.choice(sf.positions_of(w, c))
            amt = v if rng.random() < 0.6 else rng.randint(1, v)
            fresh.discard(d)
            pend.append(["Claim", d, (n, amt), []])
            return ["Transfer", n, c, d, amt]
    if fresh and op[0] in ("Enter", "Exit", "Merge", "ClaimBoosted", "Transfer", "Compound", "Claim") and rng.random() < 0.6:
        # first touch of a user in a new week: make it a quoted claim (it carries the week's boosted payout)
        c = fresh.pop()
        mine = sf.positions_of(w, c)
        if mine:
            n, v = rng.choice(mine)
            return ["Claim", c, (n, v if rng.random() < 0.5 else rng.randint(1, v)), []]
    if op[0] in ("Enter", "Exit", "Merge", "ClaimBoosted", "Transfer", "Compound") and rng.random() < 0.3:
        c = rng.choice(range(1, sf.NUSERS + 1))
        mine = sf.positions_of(w, c)
        if mine:
            n, v = rng.choice(mine)
            return ["Claim", c, (n, v if rng.random() < 0.5 else rng.randint(1, v)), []]
    return op


def farm_history(seed, nops, ops=None, cfg=None):
    rng = random.Random(seed)
    if cfg is None:
        cfg = sf.gen_cfg(rng)
    w = sf.FarmWorld(cfg)
    trace = []
    try:
        for i in range(len(ops) if ops is not None else nops):
            op = ops[i] if ops is not None else farm_gen_op(rng, w)
            qs = farm_probe(w, op, rng)
            o = w.exec(op)
            if o is not None:
                for q in qs:
                    q["b"], q["known"] = o["b"], bool(o["ok"])
                o["q20"] = qs
            trace.append((op, o))
    finally:
        w.close()
    return cfg, trace


def farm_coq(cfg, trace):
    items = []
    for op, o in trace:
        if o is None:
            continue
        qs = "; ".join(f"RFarm.FQ {q['blk']} {q['x']} {q['rps']} {zlit(q['b'])} {cb(q['known'])} {cb(q['ok'])} {q['v']}"
                       for q in o["q20"])
        items.append(f"({sf.coq_op(op, o)}, {sf.coq_obs(o)}, [{qs}])")
    return (f"(RFarm.trace (init_farm {cfg['dsc']} {cb(cfg['same'])}) 0 [\n    " + ";\n    ".join(items) + "])")


# ====================================================================== dex/farm-with-locked-rewards
LOCKED = b"LOCKED-abcdef"


class LockedFarmWorld(sf.FarmWorld):
    """the same world with the farm-with-locked-rewards code and a REAL energy factory: rewards are not
    minted into the farm but locked through lockVirtual; users get energy by locking reward tokens"""
    CODE = "farm-with-locked-rewards"

    def __init__(self, cfg):
        assert not cfg["same"]
        super().__init__(cfg)
        vm, own = self.vm, self.addr[sf.OWNER]
        self.real = sc_addr("efactoryreal")
        args = [self.rew, b"LEGACY-abcdef", sc_addr("unstake"), top_u(0)]
        for e, p in ((360, 4000), (720, 6000), (1440, 8000)):
            args += [top_u(e), top_u(p)]
        r = vm.deploy(own, "energy-factory", args, new_addr=self.real)
        assert r.ok, r
        vm.sset(self.real, b"lockedTokenId", LOCKED)
        vm.roles(self.real, self.rew, ["ESDTRoleLocalMint", "ESDTRoleLocalBurn"])
        vm.roles(self.real, LOCKED, ["ESDTRoleNFTCreate", "ESDTRoleNFTAddQuantity", "ESDTRoleNFTBurn", "ESDTTransferRole"])
        assert vm.call(own, self.real, "unpause").ok
        assert vm.call(own, self.real, "addSCAddressToWhitelist", [self.farm]).ok
        assert vm.call(own, self.farm, "setEnergyFactoryAddress", [self.real]).ok
        assert vm.call(own, self.farm, "setLockingScAddress", [self.real]).ok
        assert vm.call(own, self.farm, "setLockEpochs", [top_u(360)]).ok
        for u in range(1, sf.NUSERS + 1):
            vm.setbal(self.addr[u], self.rew, 0, sf.BIG)

    def exec(self, op):
        if op[0] == "Energy":
            _, u, en, locked = op
            r = self.vm.call(self.addr[u], self.real, "lockTokens", [top_u(720 if en % 2 else 1440)],
                             [(self.rew, 0, max(1, min(locked, 10 ** 15)))])
            assert r.ok, r
            return None
        return super().exec(op)


def lfarm_history(seed, nops, ops=None, cfg=None):
    rng = random.Random(seed)
    if cfg is None:
        cfg = sf.gen_cfg(rng)
        cfg["same"] = False
    w = LockedFarmWorld(cfg)
    trace = []
    try:
        for i in range(len(ops) if ops is not None else nops):
            op = ops[i] if ops is not None else farm_gen_op(rng, w)
            qs = farm_probe(w, op, rng)
            o = w.exec(op)
            if o is not None:
                for q in qs:
                    q["b"], q["known"] = o["b"], bool(o["ok"])
                o["q20"] = qs
            trace.append((op, o))
    finally:
        w.close()
    return cfg, trace


# ====================================================================== farm-staking
def staking_probe(w, op, rng):
    """two quotes per claim: the claimer passed explicitly, and the default (no user argument: the view
    then uses the position's recorded original owner)"""
    vm, A = w.vm, w.addr
    qs = []
    if op[0] != "Claim":
        return qs
    c, (n, x) = op[1], op[2]
    raw = vm.attrs(A[c], ss.FARM, n)
    if not raw:
        return qs
    rps, _, _, owner_addr = ss.dec_sattrs(raw)
    owner = w.ids.get(owner_addr, -1)
    for mode, args in (("explicit", [top_u(x), raw, A[c]]), ("default", [top_u(x), raw])):
        r, same = qview(vm, [w.sc], w.sc, "calculateRewardsForGivenPosition", args)
        q = dict(view="calculateRewardsForGivenPosition", mode=mode, user=c, owner=owner, x=x, rps=rps, ok=r.ok, msg=r.msg,
                 v=uval(r), unchanged=same, blk=w.blk, tx_ok=None)
        if mode == "explicit" and rng.random() < 0.06:
            t = vm.call(A[c], w.sc, "calculateRewardsForGivenPosition", args)
            q["tx_ok"] = t.ok
        qs.append(q)
    return qs


def staking_gen_op(rng, w):
    op = ss.gen_op(rng, w)
    if op[0] == "Time" and op[2] >= 7:
        w.c20_fresh = set(range(1, ss.NUSERS + 1))
    if w.cfg.get("boost") and getattr(w, "boost_stage", 0) >= 5 and op[0] not in ("SetRate", "SetState", "Start", "TopUp") \
            and rng.random() < 0.09:
        w.c20_fresh = set(range(1, ss.NUSERS + 1))
        return ["Time", rng.choice([1, 5, 50]), rng.choice([7, 7, 7, 8, 14])]
    fresh = getattr(w, "c20_fresh", None)
    spend = w.__dict__.setdefault("c20_pending", [])
    if spend:
        return spend.pop(0)
    if w.shadow["rate"] != 0 and not w.shadow["produce"] and rng.random() < 0.5:
        # production is stopped: what was settled before the stop is still owed - quote and claim while stopped
        cands = [u for u in range(1, ss.NUSERS + 1) if ss.positions_of(w, u)]
        if cands:
            c = rng.choice(cands)
            n, v = rng.choice(ss.positions_of(w, c))
            return ["Claim", c, (n, v if rng.random() < 0.5 else rng.randint(1, v))]
    if w.shadow["rate"] != 0 and w.shadow["produce"] and w.last["supply"] > 0 and rng.random() < 0.04:
        # scripted: blocks pass, the owner stops production (which settles them), then a quoted claim while stopped
        cands = [u for u in range(1, ss.NUSERS + 1) if ss.positions_of(w, u)]
        if cands:
            c = rng.choice(cands)
            n, v = rng.choice(ss.positions_of(w, c))
            spend.extend([["End", ss.OWNER], ["Claim", c, (n, v if rng.random() < 0.5 else rng.randint(1, v))]])
            return ["Time", rng.choice([1, 3, 10, 100]), 0]
    if fresh and op[0] in ("Stake", "Unstake", "Merge", "ClaimBoosted", "Transfer", "Compound", "Claim", "Unbond") and rng.random() < 0.6:
        c = fresh.pop()
        mine = ss.positions_of(w, c)
        if mine:
            n, v = rng.choice(mine)
            return ["Claim", c, (n, v if rng.random() < 0.5 else rng.randint(1, v))]
    if op[0] in ("Stake", "Unstake", "Merge", "ClaimBoosted", "Transfer", "Compound", "Unbond") and rng.random() < 0.3:
        c = rng.choice(range(1, ss.NUSERS + 1))
        mine = ss.positions_of(w, c)
        if mine:
            n, v = rng.choice(mine)
            return ["Claim", c, (n, v if rng.random() < 0.5 else rng.randint(1, v))]
    return op


def staking_history(seed, nops, ops=None, cfg=None):
    rng = random.Random(seed)
    if cfg is None:
        cfg = ss.gen_cfg(rng)
        # quotes with a pending boosted part need boosted yields on and an accrual that is not starved by the APR cap
        cfg["boost"] = cfg["boost"] or rng.random() < 0.4
        if cfg["boost"] and cfg["apr"] < 2500 and rng.random() < 0.8:
            cfg["apr"] = rng.choice([2500, 10000, 10 ** 6, 10 ** 12])
    w = ss.StakingWorld(cfg)
    trace = []
    try:
        for i in range(len(ops) if ops is not None else nops):
            op = ops[i] if ops is not None else staking_gen_op(rng, w)
            qs = staking_probe(w, op, rng)
            o = w.exec(op)
            if o is not None:
                for q in qs:
                    # the boosted amount of the queried user is observable only through the claimer's own claim
                    q["b"] = o["b"]
                    q["known"] = bool(o["ok"]) and (q["mode"] == "explicit" or q["owner"] == q["user"])
                o["q20"] = qs
            trace.append((op, o))
    finally:
        w.close()
    return cfg, trace


def staking_coq(cfg, trace):
    items = []
    for op, o in trace:
        if o is None or op[0] == "Transfer":
            continue
        qs = "; ".join(f"RStk.SQ {q['blk']} {q['x']} {q['rps']} {zlit(q['b'])} {cb(q['known'])} {cb(q['ok'])} {q['v']}" for q in o["q20"])
        items.append(f"({ss.coq_op(op, o)}, {ss.coq_obs(op, o)}, [{qs}])")
    return (f"(RStk.trace (init_stk {cfg['dsc']} {cfg['apr']} {cfg['minub']}) 0 [\n    " + ";\n    ".join(items) + "])")


# ====================================================================== energy-factory (locking)
def locking_probe(w, op, rng):
    vm = w.vm
    qs = []
    if op[0] == "UnlockEarly":
        _, c, e, amt = op
        prev, new = e - w.epoch, 0
    elif op[0] == "Reduce":
        _, c, e, amt, le = op
        prev, new = e - w.epoch, sl.som(w.epoch + le) - w.epoch
    else:
        return qs
    if prev < 0 or new < 0:
        return qs                          # u64 arguments: not encodable
    acc = [w.fact, w.unst, w.coll]
    r, same = qview(vm, acc, w.fact, "getPenaltyAmount", [top_u(amt), top_u(prev), top_u(new)])
    q = dict(view="getPenaltyAmount", amt=amt, prev=prev, new=new, ok=r.ok, msg=r.msg, v=uval(r), unchanged=same, raw=None)
    if op[0] == "Reduce" and le != new and le < prev:
        # what a caller gets who passes the endpoint's own argument (the lock option) to the view
        r2 = vm.query(w.fact, "getPenaltyAmount", [top_u(amt), top_u(prev), top_u(le)])
        q["raw"] = uval(r2) if r2.ok else None
    qs.append(q)
    return qs


def locking_history(seed, nops, ops=None, cfg=None):
    rng = random.Random(seed)
    if cfg is None:
        cfg = sl.gen_cfg(rng)
    w = sl.LockWorld(cfg)
    trace, stats = [], {}
    try:
        for i in range(len(ops) if ops is not None else nops):
            op = ops[i] if ops is not None else sl.gen_op(rng, w, stats)
            qs = locking_probe(w, op, rng)
            o = w.exec(op)
            o["q20"] = qs
            trace.append((op, o))
    finally:
        w.close()
    return cfg, trace


def locking_coq(cfg, trace):
    items = []
    for op, o in trace:
        qs = "; ".join(f"RPen.LQ {q['amt']} {q['prev']} {q['new']} {cb(q['ok'])} {q['v']}" for q in o["q20"])
        items.append(f"({sl.coq_op(op)}, {sl.coq_obs(o)}, [{qs}])")
    return f"(RPen.trace {sl.coq_init(cfg)} 0 [\n    " + ";\n    ".join(items) + "])"


# ====================================================================== price-discovery
def pd_probe(w, op, rng):
    vm = w.vm
    if op[0] not in ("Deposit", "Withdraw", "Redeem"):
        return []
    acc = [w.pd]
    r1, same1 = qview(vm, acc, w.pd, "getCurrentPhase", [])
    ph, pct = spd.parse_phase(r1.out[0]) if (r1.ok and r1.out) else (-1, 0)
    r2, same2 = qview(vm, acc, w.pd, "getCurrentPrice", [])
    return [dict(view="getCurrentPhase/getCurrentPrice", phase=ph, pct=pct, okph=r1.ok, okpr=r2.ok, price=uval(r2),
                 unchanged=same1 and same2)]


def pd_history(seed, nops, ops=None, cfg=None):
    rng = random.Random(seed)
    if cfg is None:
        cfg = spd.gen_cfg(rng, nops)
    w = spd.PDWorld(cfg)
    trace = []
    try:
        if w.deployed:
            for i in range(len(ops) if ops is not None else nops):
                op = ops[i] if ops is not None else spd.gen_op(rng, w)
                qs = pd_probe(w, op, rng)
                o = w.exec(op)
                o["q20"] = qs
                trace.append((op, o))
        return cfg, dict(deployed=w.deployed, obs0=(w.obs0 if w.deployed else None), trace=trace)
    finally:
        w.close()


def pd_coq(cfg, h):
    items = []
    for op, o in h["trace"]:
        qs = "; ".join(f"RPd.DQ {q['phase']} {q['pct']} {cb(q['okpr'])} {q['price']}" for q in o["q20"] if q["okph"])
        items.append(f"({spd.coq_op(op)}, {spd.coq_obs(o)}, [{qs}])")
    o0 = spd.coq_obs(h["obs0"]) if h["deployed"] else spd.DUMMY_OBS
    return (f"(RPd.history {spd.coq_init(cfg)} {cb(h['deployed'])} ({o0}) [\n    " + ";\n    ".join(items) + "])")


# ====================================================================== dispatch
def gen_history(system, seed, nops):
    """-> (cfg, trace) with trace = list of (op, obs or None); for "pd" obs list is wrapped, see pd_history"""
    if system == "pair":
        return pair_history(seed, nops)
    if system == "farm":
        return farm_history(seed, nops)
    if system == "staking":
        return staking_history(seed, nops)
    if system == "locking":
        return locking_history(seed, nops)
    if system == "pd":
        return pd_history(seed, nops)
    if system == "lfarm":
        return lfarm_history(seed, nops)
    raise ValueError(system)


def replay_history(system, cfg, ops):
    f = dict(pair=pair_history, farm=farm_history, staking=staking_history, locking=locking_history, pd=pd_history,
             lfarm=lfarm_history)[system]
    return f(0, len(ops), ops=ops, cfg=cfg)


def trace_of(system, h):
    return h["trace"] if system == "pd" else h


def coq_history(system, cfg, h):
    return dict(pair=pair_coq, farm=farm_coq, staking=staking_coq, locking=locking_coq, pd=pd_coq)[system](cfg, h)
