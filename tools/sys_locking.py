"""Locking subsystem (property C09): real energy-factory + real token-unstake + real fees-collector
driven through the mxvm executor; op generator; observation; Gallina emission; the exhaustive
getPenaltyAmount sweep.

Ids used by the model (coq/Model/Penalty.v): users 1..NUSERS, 50 = the token-unstake contract
(escrow), 60 = the smart contract whitelisted for lockVirtual, 100 = owner of all contracts.
Token codes of the model's ledger: 0 = base asset, e >= 1 = the LOCKED nonce whose attributes
carry unlock_epoch = e.
"""
import random
from vmx import *

BASE = b"MEX-abcdef"
LOCKED = b"LOCKED-abcdef"
LEGACY = b"LEGACY-abcdef"
NUSERS = 3
UNSTAKE, WLSC, OWNER = 50, 60, 100
FUND = 10 ** 24
EPM, EPY, MAXP, MAXOPT, MAXCLAIM = 30, 360, 10000, 10, 20       # only used to aim the generator
NO_NONCE = 999999


def zlit(n):
    return f"({n})" if n < 0 else str(n)


def som(e):
    return e - e % EPM


class LockWorld:
    def __init__(self, cfg):
        """cfg: dict(opts=[[epochs, pct]..], unbond, burn, epoch0)"""
        self.cfg = cfg
        vm = self.vm = VM()
        self.addr = {OWNER: user_addr("owner"), WLSC: sc_addr("rewarder")}
        for u in range(1, NUSERS + 1):
            self.addr[u] = user_addr(f"user{u}")
        self.fact = sc_addr("efactory")
        self.unst = sc_addr("unstake")
        self.coll = sc_addr("collector")
        self.addr[UNSTAKE] = self.unst
        for k, a in self.addr.items():
            if k != UNSTAKE:
                vm.acct(a)
        self.epoch = cfg["epoch0"]
        self.nonce_blk = 1
        vm.block(nonce=1, round_=1, epoch=self.epoch, ts=6)
        own = self.addr[OWNER]
        args = [BASE, LEGACY, self.unst, top_u(0)]
        for e, p in cfg["opts"]:
            args += [top_u(e), top_u(p)]
        r = vm.deploy(own, "energy-factory", args, new_addr=self.fact)
        assert r.ok, r
        vm.sset(self.fact, b"lockedTokenId", LOCKED)
        vm.roles(self.fact, BASE, ["ESDTRoleLocalMint", "ESDTRoleLocalBurn"])
        vm.roles(self.fact, LOCKED, ["ESDTRoleNFTCreate", "ESDTRoleNFTAddQuantity", "ESDTRoleNFTBurn", "ESDTTransferRole"])
        r = vm.deploy(own, "token-unstake", [top_u(cfg["unbond"]), self.fact, top_u(cfg["burn"]), self.coll],
                      new_addr=self.unst)
        assert r.ok, r
        vm.roles(self.unst, BASE, ["ESDTRoleLocalBurn"])
        vm.roles(self.unst, LOCKED, ["ESDTRoleNFTBurn"])
        r = vm.deploy(own, "fees-collector", [LOCKED, self.fact], new_addr=self.coll)
        assert r.ok, r
        vm.roles(self.coll, LOCKED, ["ESDTRoleNFTBurn"])
        assert vm.call(own, self.coll, "addKnownContracts", [self.unst]).ok
        assert vm.call(own, self.fact, "unpause").ok
        assert vm.call(own, self.fact, "setTokenUnstakeAddress", [self.unst]).ok
        assert vm.call(own, self.fact, "addSCAddressToWhitelist", [self.addr[WLSC]]).ok
        for u in range(1, NUSERS + 1):
            vm.setbal(self.addr[u], BASE, 0, FUND)
        self.holders = list(range(1, NUSERS + 1)) + [UNSTAKE]
        self.all_accounts = [self.addr[k] for k in self.addr if k != UNSTAKE] + [self.fact, self.unst, self.coll]
        self.epoch_of = {}        # nonce -> unlock epoch
        self.nonce_of = {}        # unlock epoch -> nonce
        self.fees_cum = 0
        self.emitted = 0
        self.bsupply0 = NUSERS * FUND
        self.last = self.observe_state()

    def close(self):
        self.vm.close()

    # ------------------------------------------------------------ decoding
    def refresh_nonces(self):
        for t, n, b in self.vm.tokens(self.fact):
            if t == LOCKED and n not in self.epoch_of:
                d = Dec(self.vm.attrs(self.fact, LOCKED, n))
                d.bytes_()
                d.u64()
                e = d.u64()
                assert d.done()
                self.epoch_of[n] = e
                assert e not in self.nonce_of, "two nonces for one unlock epoch"
                self.nonce_of[e] = n

    def decode_queue(self, raw):
        d = Dec(raw)
        out = []
        while not d.done():
            rel = d.u64()
            lt, ln, la = d.payment()
            ut, un_, ua = d.payment()
            assert lt == LOCKED and ut == BASE and un_ == 0
            out.append([rel, self.epoch_of.get(ln, -ln), la, ua])
        return out

    def cur_week_fees(self):
        w = self.vm.query(self.coll, "getCurrentWeek")
        r = self.vm.query(self.coll, "getAccumulatedFees", [w.out[0], LOCKED])
        return from_top_u(r.out[0]) if r.out else 0

    # ------------------------------------------------------------ observation
    def observe_state(self):
        vm = self.vm
        self.refresh_nonces()
        bal = {}
        held = {}
        for h in self.holders:
            toks = {(t, n): b for t, n, b in vm.tokens(self.addr[h])}
            bal[(h, 0)] = toks.get((BASE, 0), 0)
            tot = 0
            for n, e in self.epoch_of.items():
                v = toks.get((LOCKED, n), 0)
                bal[(h, e)] = v
                tot += v
            held[h] = tot
        tl = {}
        q = {}
        for u in range(1, NUSERS + 1):
            r = vm.query(self.fact, "getEnergyEntryForUser", [self.addr[u]])
            d = Dec(r.out[0])
            d.bigint()
            d.u64()
            tl[u] = d.big()
            r = vm.query(self.unst, "getUnlockedTokensForUser", [self.addr[u]])
            q[u] = self.decode_queue(r.out[0]) if r.out else []
        bs = 0
        ls = 0
        for a in self.all_accounts:
            for t, n, b in vm.tokens(a):
                if t == BASE:
                    bs += b
                elif t == LOCKED:
                    ls += b
        ls -= len(self.epoch_of)            # the factory keeps the one unit esdt_nft_create needs per nonce
        r = vm.query(self.fact, "getLockOptions")
        d = Dec(r.out[0] if r.out else b"")
        opts = []
        while not d.done():
            opts.append([d.u64(), d.u64()])
        p = vm.query(self.fact, "isPaused")
        return dict(now=self.epoch, bal=bal, held=held, tl=tl, q=q, fees=self.fees_cum, bsupply=bs, lsupply=ls,
                    opts=opts, paused=bool(p.out and p.out[0]), burn=from_top_u(vm.query(self.unst, "getFeesBurnPercentage").out[0]),
                    unbond=from_top_u(vm.query(self.unst, "getUnbondEpochs").out[0]), emitted=self.emitted)

    def nonce(self, e):
        return self.nonce_of.get(e, NO_NONCE)

    def quote(self, amt, prev, new):
        if prev < 0 or new < 0:
            return None
        r = self.vm.query(self.fact, "getPenaltyAmount", [top_u(amt), top_u(prev), top_u(new)])
        return from_top_u(r.out[0]) if r.ok else None

    # ------------------------------------------------------------ execution
    def exec(self, op):
        vm = self.vm
        k = op[0]
        A = self.addr
        outs = []
        quote = None
        if k == "Advance":
            self.epoch += op[1]
            self.nonce_blk += 1
            vm.block(nonce=self.nonce_blk, round_=self.nonce_blk, epoch=self.epoch, ts=6 * self.nonce_blk)
            o = self.observe_state()
            o.update(ok=True, msg="", outs=[], unchanged=None, quote=None, pre=self.last)
            self.last = {k_: v for k_, v in o.items() if k_ not in ("pre", "ok", "msg", "outs", "unchanged", "quote")}
            return o
        pre_dig = vm.digest([self.fact, self.unst, self.coll] + [A[u] for u in range(1, NUSERS + 1)])
        fees0 = self.cur_week_fees()

        def locked_out(x):
            t, n, a = dec_payment(x)
            self.refresh_nonces()
            return [self.epoch_of.get(n, -n), a]

        if k == "Lock":
            _, c, amt, le, dest = op
            args = [top_u(le)] + ([A[dest]] if dest != c else [])
            r = vm.call(A[c], self.fact, "lockTokens", args, [(BASE, 0, amt)])
            if r.ok:
                outs = locked_out(r.out[0])
        elif k == "Extend":
            _, c, e, amt, le = op
            r = vm.call(A[c], self.fact, "lockTokens", [top_u(le)], [(LOCKED, self.nonce(e), amt)])
            if r.ok:
                outs = locked_out(r.out[0])
        elif k == "LockVirtual":
            _, c, amt, le, dest = op
            r = vm.call(A[c], self.fact, "lockVirtual", [BASE, top_u(amt), top_u(le), A[dest], A[dest]])
            if r.ok:
                outs = locked_out(r.out[0])
                self.emitted += amt
        elif k == "Unlock":
            _, c, ps = op
            r = vm.call(A[c], self.fact, "unlockTokens", [], [(LOCKED, self.nonce(e), a) for e, a in ps])
            if r.ok:
                t, n, a = dec_payment(r.out[0])
                assert t == BASE and n == 0
                outs = [a]
        elif k == "UnlockEarly":
            _, c, e, amt = op
            quote = self.quote(amt, e - self.epoch, 0)
            r = vm.call(A[c], self.fact, "unlockEarly", [], [(LOCKED, self.nonce(e), amt)])
        elif k == "Reduce":
            _, c, e, amt, le = op
            quote = self.quote(amt, e - self.epoch, som(self.epoch + le) - self.epoch)
            r = vm.call(A[c], self.fact, "reduceLockPeriod", [top_u(le)], [(LOCKED, self.nonce(e), amt)])
            if r.ok:
                outs = locked_out(r.out[0])
        elif k == "Claim":
            r = vm.call(A[op[1]], self.unst, "claimUnlockedTokens")
            if r.ok:
                for x in r.out:
                    t, n, a = dec_payment(x)
                    assert t == BASE and n == 0
                    outs.append(a)
        elif k == "Cancel":
            r = vm.call(A[op[1]], self.unst, "cancelUnbond")
            if r.ok:
                for x in r.out:
                    outs += locked_out(x)
        elif k == "AddOptions":
            _, c, new = op
            args = []
            for e, p in new:
                args += [top_u(e), top_u(p)]
            r = vm.call(A[c], self.fact, "addLockOptions", args)
        elif k == "SetBurn":
            r = vm.call(A[op[1]], self.unst, "setFeesBurnPercentage", [top_u(op[2])])
        elif k == "SetPaused":
            r = vm.call(A[op[1]], self.fact, "pause" if op[2] else "unpause")
        else:
            raise ValueError(k)
        self.fees_cum += self.cur_week_fees() - fees0
        o = self.observe_state()
        o.update(ok=r.ok, msg=r.msg, outs=outs, quote=quote)
        o["unchanged"] = None if r.ok else (
            vm.digest([self.fact, self.unst, self.coll] + [A[u] for u in range(1, NUSERS + 1)]) == pre_dig)
        o["pre"] = self.last
        self.last = {k_: v for k_, v in o.items() if k_ not in ("pre", "ok", "msg", "outs", "unchanged", "quote")}
        return o


# ------------------------------------------------------------------ Coq emission
def coq_pairs(l):
    return "[" + "; ".join("(" + ", ".join(zlit(x) for x in t) + ")" for t in l) + "]"


def coq_list(l):
    return "[" + "; ".join(zlit(x) for x in l) + "]"


def coq_op(op):
    k = op[0]
    if k == "Unlock":
        return f"Unlock {op[1]} {coq_pairs(op[2])}"
    if k == "AddOptions":
        return f"AddOptions {op[1]} {coq_pairs(op[2])}"
    if k == "SetPaused":
        return f"SetPaused {op[1]} {'true' if op[2] else 'false'}"
    return k + " " + " ".join(zlit(x) for x in op[1:])


def coq_obs(o):
    bal = coq_pairs(sorted((h, t, v) for (h, t), v in o["bal"].items()))
    held = coq_pairs(sorted(o["held"].items()))
    tl = coq_pairs(sorted(o["tl"].items()))
    q = "[" + "; ".join(f"({u}, {coq_list([x for en in ents for x in en])})" for u, ents in sorted(o["q"].items())) + "]"
    opts = coq_list([x for e in o["opts"] for x in e])
    return (f"mkObs {'true' if o['ok'] else 'false'} {coq_list(o['outs'])} {o['now']} {bal} {held} {tl} {q} "
            f"{o['fees']} {o['bsupply']} {o['lsupply']} {opts}")


def coq_init(cfg):
    funds = coq_pairs([(u, FUND) for u in range(1, NUSERS + 1)])
    return f"(init_world {coq_pairs(cfg['opts'])} {cfg['unbond']} {cfg['burn']} {cfg['epoch0']} {funds})"


def coq_history(cfg, trace):
    items = ";\n    ".join(f"({coq_op(op)}, {coq_obs(o)})" for op, o in trace)
    return f"(check_trace {coq_init(cfg)} 0 [\n    {items}])"


# ------------------------------------------------------------------ generation
def log_amount(rng, hi=10 ** 22):
    e = rng.uniform(0, len(str(hi)) - 1)
    return max(1, int(10 ** e) + rng.randint(0, 9))


def gen_opts(rng):
    """an option set addLockOptions accepts: 1..MAXOPT options, epochs >= 360 distinct, percentages
    strictly increasing within 0..10000 (boundaries 0 and 10000 included)"""
    n = rng.choice([1, 2, 3, 3, 3, 4, 4, 5, 7, MAXOPT])
    cls = rng.random()
    if cls < 0.3:
        es = sorted(rng.sample([EPY * k for k in range(1, 9)], min(n, 8)))
    elif cls < 0.6:
        es = sorted(rng.sample(range(EPY, EPY + 1500, 30), n))
    else:
        es = sorted(rng.sample(range(EPY, EPY + 1700), n))
    n = len(es)
    lo = rng.choice([0, 0, 1, 100, 4000, rng.randint(0, 9000)])
    hi = rng.choice([MAXP, MAXP, 8000, rng.randint(lo + n, MAXP)])
    hi = max(hi, lo + n - 1)
    if n == 1:
        ps = [rng.choice([lo, hi])]
    else:
        ps = sorted(rng.sample(range(lo + 1, hi), n - 2)) if hi - lo - 1 >= n - 2 else None
        if ps is None:
            ps = list(range(lo + 1, lo + n - 1))
        ps = [lo] + ps + [hi]
    return [[e, p] for e, p in zip(es, ps)]


def gen_cfg(rng):
    return dict(opts=gen_opts(rng) if rng.random() < 0.8 else [[360, 4000], [720, 6000], [1440, 8000]],
                unbond=rng.choice([0, 0, 1, 2, 7, 10, 10, 29, 30, rng.randint(0, 30)]),
                burn=rng.choice([0, 1, 3333, 5000, 5000, 9999, MAXP, rng.randint(0, MAXP)]),
                epoch0=rng.choice([0, 1, 5, 29, 30, 31, rng.randint(0, 2000)]))


def amount_class(rng, have=None):
    cls = rng.random()
    if cls < 0.22:
        a = 1
    elif cls < 0.4:
        a = rng.randint(2, 20)
    elif cls < 0.5:
        a = rng.choice([MAXP, MAXP - 1, MAXP + 1, 2 * MAXP, 3333])
    else:
        a = log_amount(rng)
    if have is not None:
        if cls > 0.85:
            a = have
        a = min(a, have) if rng.random() < 0.93 else have + rng.choice([1, a])
    return max(a, 1)


def holdings(s, u):
    return [(e, v) for (h, e), v in sorted(s["bal"].items()) if h == u and e > 0 and v > 0]


def gen_op(rng, w, stats):
    """mostly-valid op from the world's last observed state"""
    s = w.last
    now = s["now"]
    users = list(range(1, NUSERS + 1))
    c = rng.choice(users)
    opts = [e for e, _ in s["opts"]]
    roll = rng.random()
    mine = holdings(s, c)
    anyq = [u for u in users if s["q"][u]]
    anyh = [u for u in users if holdings(s, u)]
    _pend = w.__dict__.setdefault("pending", [])
    if _pend:
        return _pend.pop(0)
    if s["paused"] and rng.random() < 0.6:
        return ["SetPaused", OWNER, False]
    if not w.__dict__.get("long_queue") and anyh and not s["paused"] and rng.random() < 0.02:
        # a queue LONGER than the per-call claim cap (20 entries): 21..23 small early unlocks by one user, then a cancel
        # (everything must come back) or a claim after the unbond period (at most 20 per call, the rest stays queued)
        u = rng.choice(anyh)
        e, v = max(holdings(s, u), key=lambda t: t[1])
        if e > now and v >= 1000:
            w.long_queue = True
            n = rng.choice([21, 22, 23])
            _pend.extend([["UnlockEarly", u, e, max(1, v // 100)] for _ in range(n - 1)])
            _pend.append(["Cancel", u] if rng.random() < 0.6 else ["Advance", 40])
            return ["UnlockEarly", u, e, max(1, v // 100)]
    # ---- out-of-phase / unauthorised / malformed share
    if roll < 0.11:
        kind = rng.randint(0, 9)
        if kind == 0:
            return ["SetPaused", rng.choice(users), rng.random() < 0.5]
        if kind == 1:
            return ["Lock", c, amount_class(rng), rng.choice([0, 1, 359, opts[0] + 1, opts[-1] - 1, 10 ** 6]), c]
        if kind == 2 and anyh:
            u = rng.choice(anyh)
            e, v = rng.choice(holdings(s, u))
            return ["Unlock", u, [[e, min(v, amount_class(rng))]]]           # usually before its time
        if kind == 3:
            return ["Claim", c]
        if kind == 4:
            return ["Cancel", c]
        if kind == 5 and mine:
            e, v = rng.choice(mine)
            return ["Reduce", c, e, min(v, amount_class(rng)), rng.choice(opts)]   # often not shorter
        if kind == 6:
            return ["LockVirtual", rng.choice(users + [OWNER]), amount_class(rng), rng.choice(opts), c]
        if kind == 7:
            return ["UnlockEarly", c, rng.choice([now + 1, som(now + opts[0]), 12345]), amount_class(rng)]
        if kind == 8:
            return ["SetBurn", rng.choice(users + [OWNER]), rng.choice([MAXP + 1, 20000, rng.randint(0, MAXP)])]
        return ["AddOptions", rng.choice(users + [OWNER]), [[rng.choice([359, 100, opts[0], opts[-1] + 30]), rng.choice([0, 5000, MAXP + 1])]]]
    # ---- administration
    if roll < 0.14:
        kind = rng.random()
        if kind < 0.3:
            return ["SetBurn", OWNER, rng.choice([0, 1, 5000, MAXP, rng.randint(0, MAXP)])]
        if kind < 0.5:
            return ["SetPaused", OWNER, True]
        if len(opts) < MAXOPT:
            # try to insert one valid option somewhere
            es, ps = [0] + opts, [-1] + [p for _, p in s["opts"]]
            i = rng.randint(0, len(es) - 1)
            if i == len(es) - 1:
                e_new, lo_p, hi_p = es[-1] + rng.choice([1, 30, 360, 777]), ps[-1] + 1, MAXP
            else:
                lo_e, hi_e = max(es[i] + 1, EPY), es[i + 1] - 1
                e_new, lo_p, hi_p = (rng.randint(lo_e, hi_e) if lo_e <= hi_e else 0), ps[i] + 1, ps[i + 1] - 1
            if lo_p <= hi_p and e_new not in opts and e_new >= EPY:
                return ["AddOptions", OWNER, [[e_new, rng.randint(lo_p, hi_p)]]]
        return ["SetBurn", OWNER, rng.randint(0, MAXP)]
    # ---- time
    if roll < 0.27:
        targets = []
        for u in users:
            for en in s["q"][u][:2]:
                targets += [en[0] - now - 1, en[0] - now, en[0] - now + 1]
            for e, v in holdings(s, u)[:3]:
                targets += [e - now - 1, e - now, e - now + 1, e - now - 30, e - now - opts[0]]
        targets = [t for t in targets if t >= 0]
        cls = rng.random()
        if targets and cls < 0.6:
            return ["Advance", rng.choice(targets)]
        return ["Advance", rng.choice([0, 1, 1, 2, 7, 10, 29, 30, 31, 100, 359, 360, rng.randint(1, 800)])]
    # ---- lock
    if roll < 0.43 or not anyh:
        le = rng.choice(opts)
        if rng.random() < 0.12:
            return ["LockVirtual", WLSC, amount_class(rng), le, c]
        dest = c if rng.random() < 0.85 else rng.choice(users)
        return ["Lock", c, amount_class(rng), le, dest]
    # ---- claim / cancel when something is queued
    if anyq and roll < 0.57:
        u = rng.choice(anyq)
        if rng.random() < 0.7:
            return ["Claim", u]
        return ["Cancel", u]
    u = c if mine else rng.choice(anyh)
    hs = holdings(s, u)
    e, v = rng.choice(hs)
    if e <= now or (roll < 0.64 and any(e2 <= now for e2, _ in hs)):
        ripe = [(e2, v2) for e2, v2 in hs if e2 <= now]
        if ripe:
            k = 1 if rng.random() < 0.75 else min(len(ripe), 2)
            ps = [[e2, amount_class(rng, v2)] for e2, v2 in rng.sample(ripe, k)]
            if rng.random() < 0.1:
                ps.append([ps[0][0], 1])
            if rng.random() < 0.25:
                longer = [o for o in opts if som(now + o) > ps[0][0]]
                if longer:
                    return ["Extend", u, ps[0][0], ps[0][1], rng.choice(longer)]
            unripe = [(e2, v2) for e2, v2 in hs if e2 > now]
            if unripe and rng.random() < 0.3:
                # one call paying expired AND not-yet-expired positions (same token id, different nonces): the time
                # lock is per payment, the whole call must be refused
                e3, v3 = rng.choice(unripe)
                ps.insert(rng.choice([len(ps), len(ps), 0]), [e3, amount_class(rng, v3)])
            return ["Unlock", u, ps]
    if roll < 0.66:
        longer = [o for o in opts if som(now + o) > e]
        if longer:
            return ["Extend", u, e, amount_class(rng, v), rng.choice(longer)]
    if roll < 0.84:
        return ["UnlockEarly", u, e, amount_class(rng, v)]
    shorter = [o for o in opts if som(now + o) < e]
    if shorter and rng.random() < 0.92:
        return ["Reduce", u, e, amount_class(rng, v), rng.choice(shorter)]
    if rng.random() < 0.5:
        return ["Reduce", u, e, amount_class(rng, v), rng.choice(opts)]
    return ["UnlockEarly", u, e, amount_class(rng, v)]


def gen_history(seed, nops):
    rng = random.Random(seed)
    cfg = gen_cfg(rng)
    w = LockWorld(cfg)
    trace = []
    stats = {}
    try:
        for _ in range(nops):
            op = gen_op(rng, w, stats)
            trace.append((op, w.exec(op)))
    finally:
        w.close()
    return cfg, trace


def replay_history(cfg, ops):
    w = LockWorld(cfg)
    trace = []
    try:
        for op in ops:
            trace.append((op, w.exec(op)))
    finally:
        w.close()
    return trace


# ------------------------------------------------------------------ exhaustive view sweep
def run_sweep(seed, opts=None, extra_share=0.12):
    """getPenaltyAmount on a fresh factory configured with `opts`:
      * exhaustive part: amount 10000 (so the result is the percentage itself) for EVERY remaining
        epochs value 0 .. e_last + 2 and every new value in {0} + all options (+ a few start-of-month
        normalisations as reduceLockPeriod produces them);
      * amount part: a random share of those rows again with 1-unit / boundary / log-uniform amounts.
    Returns dict(opts, news, rows) with rows = [prev, amount, [result per new]], a failed query = -1."""
    rng = random.Random(seed)
    if opts is None:
        opts = gen_opts(rng)
    vm = VM()
    try:
        own = user_addr("owner")
        fact = sc_addr("efactory")
        vm.acct(own)
        vm.block(nonce=1, round_=1, epoch=rng.randint(0, 100), ts=6)
        args = [BASE, LEGACY, sc_addr("unstake"), top_u(0)]
        # hand the options over in a shuffled order and in two calls: the setter sorts.  (Any subset of
        # a valid set is itself valid, so both calls are accepted.)
        sh = [list(x) for x in opts]
        rng.shuffle(sh)
        k = rng.randint(1, len(sh))
        for e, p in sh[:k]:
            args += [top_u(e), top_u(p)]
        r = vm.deploy(own, "energy-factory", args, new_addr=fact)
        if not r.ok:
            # a well-formed option set (strictly increasing epochs and percentages once sorted) handed over in a shuffled
            # order must be accepted: reported by the caller as a failure, not a crash
            return dict(seed=seed, opts=[list(x) for x in opts], news=[], rows=[], rejected=dict(step="init", msg=r.msg, order=sh[:k]))
        if sh[k:]:
            a2 = []
            for e, p in sh[k:]:
                a2 += [top_u(e), top_u(p)]
            r = vm.call(own, fact, "addLockOptions", a2)
            if not r.ok:
                return dict(seed=seed, opts=[list(x) for x in opts], news=[], rows=[], rejected=dict(step="addLockOptions", msg=r.msg, order=sh))
        es = [e for e, _ in opts]
        news = sorted(set([0] + es + [e - rng.randint(1, 29) for e in rng.sample(es, min(2, len(es)))]))
        rows = []

        def row(prev, a):
            vals = []
            for nw in news:
                r = vm.query(fact, "getPenaltyAmount", [top_u(a), top_u(prev), top_u(nw)])
                vals.append(from_top_u(r.out[0]) if r.ok else -1)
            return [prev, a, vals]

        for prev in range(0, es[-1] + 3):
            rows.append(row(prev, MAXP))
        for prev in range(0, es[-1] + 3):
            if rng.random() < extra_share or prev in es or prev + 1 in es:
                cls = rng.random()
                a = 1 if cls < 0.2 else rng.randint(2, 20) if cls < 0.35 else rng.choice([MAXP - 1, MAXP + 1, 3333]) if cls < 0.45 else log_amount(rng, 10 ** 24)
                rows.append(row(prev, a))
        return dict(opts=[list(x) for x in opts], news=news, rows=rows, seed=seed)
    finally:
        vm.close()


def coq_sweep_terms(sw, chunk=400):
    out = []
    rows = sw["rows"]
    for k in range(0, len(rows), chunk):
        body = "; ".join(f"({p}, {a}, {coq_list(v)})" for p, a, v in rows[k:k + chunk])
        out.append(f"(sweep {coq_pairs(sw['opts'])} {coq_list(sw['news'])} [{body}])")
    return out
