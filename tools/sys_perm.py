"""Stateful tie for the permissions module + pausable module (C19, "configuration and admin endpoints succeed only for
callers holding the required role ... previously authorised then revoked" over HISTORIES).

Real contracts that embed common/modules/permissions_module (addAdmin / removeAdmin / updateOwnerOrAdmin / getPermissions)
and common/modules/pausable (addToPauseWhitelist / removeFromPauseWhitelist / pause / resume / getState), per the Rust
sources' supertrait lists:

    pair                       dex/pair/src/lib.rs                  permissions + pausable (+ setStateActiveNoSwaps)
    farm                       dex/farm/src/lib.rs                  permissions + pausable
    farm-with-locked-rewards   dex/farm-with-locked-rewards         permissions + pausable
    farm-staking               farm-staking/farm-staking            permissions + pausable
    lkmex-transfer             locked-asset/lkmex-transfer          permissions only (no pause / resume / getState)

(energy-factory and fees-collector use the framework's owner-only `multiversx_sc_modules::pause`, not these modules;
governance-v2 embeds the permissions module but its init grants nothing, so no operation can ever succeed there.)

One history = one fresh deployment (init arguments drawn from the seed: `owner` argument zero / the deployer / another
address, 0-3 admins possibly naming the deployer or the owner or twice the same address) followed by a generated sequence of
permission operations by the 9 tracked addresses.  After EVERY operation the world records Ok/Err, `getPermissions(a)` for
every tracked address and `getState`.  The chain owner is changed through the protocol's ChangeOwnerAddress built-in; the
debug VM's mock of it does not check the caller, so the generator issues it from the current chain owner only
(assumption A-CHANGE-OWNER).

Coq side: Model/PermExt.v (px_step over Model/Access.v's pm_step), Run/PermRun.v (check_history)."""
import random
from vmx import *

IMPORTS = "Base.Prelude Gen.Params Gen.Endpoints Model.Access Model.PermExt Run.PermRun"
KINDS = ("pair", "farm", "farm-with-locked-rewards", "farm-staking", "lkmex-transfer")
PAUSABLE = ("pair", "farm", "farm-with-locked-rewards", "farm-staking")
OWNER, ADMIN, PAUSE = 1, 2, 4
FLAG_NAMES = {OWNER: "OWNER", ADMIN: "ADMIN", PAUSE: "PAUSE"}

# tracked addresses (ids are the model's address ids; 0 = the zero address)
IDS = (1, 2, 3, 4, 5, 6, 7, 8, 9)
NAMES = {1: "deployer", 2: "owner2", 3: "router", 4: "admin-a", 5: "admin-b", 6: "keeper-a", 7: "keeper-b", 8: "user", 9: "heir"}

T1, T2 = b"WEGLD-abcdef", b"MEX-abcdef"
REW, LPF, MEX, STK, LOCKED = b"REW-abcdef", b"LPFARM-abcdef", b"MEX-abcdef", b"RIDE-abcdef", b"LOCKED-abcdef"

OPS_OWNER = ("AddAdmin", "RemoveAdmin", "AddPausers", "RemovePausers", "SetNoSwaps")   # demand the OWNER flag
OPS_PAUSE = ("Pause", "Resume")                                                       # demand the PAUSE flag
OPS_CHAIN = ("UpdateOwner", "ChangeOwner")                                            # demand the chain owner
ENDPOINT = dict(AddAdmin="addAdmin", RemoveAdmin="removeAdmin", AddPausers="addToPauseWhitelist",
                RemovePausers="removeFromPauseWhitelist", Pause="pause", Resume="resume", SetNoSwaps="setStateActiveNoSwaps",
                UpdateOwner="updateOwnerOrAdmin", ChangeOwner="ChangeOwnerAddress")
STATE_TARGET = dict(Pause=0, Resume=1, SetNoSwaps=2)


def flag_of(k):
    return ADMIN if k in ("AddAdmin", "RemoveAdmin") else PAUSE


def targets_of(op):
    """addresses an add / remove operation names"""
    k = op[0]
    if k in ("AddAdmin", "RemoveAdmin"):
        return [op[2]]
    if k in ("AddPausers", "RemovePausers"):
        return list(op[2])
    return []


class PermWorld:
    def __init__(self, cfg):
        self.cfg = cfg
        kind = cfg["kind"]
        self.kind = kind
        self.vm = vm = VM()
        vm.block(nonce=10, round_=10, epoch=5, ts=60)
        self.addr = {0: ZERO_ADDR}
        for i in IDS:
            a = sc_addr("router-addr") if (i == 3 and kind == "pair") else user_addr(NAMES[i])
            self.addr[i] = a
            vm.acct(a)
            vm.setegld(a, 10 ** 21)
        self.sc = sc_addr("target1")
        dep = self.addr[1]
        admins = [self.addr[i] for i in cfg["admins"]]
        own = self.addr[cfg["owner"]]
        if kind == "pair":
            args = [T1, T2, self.addr[3], self.addr[cfg["router_owner"]], top_u(300), top_u(50), ZERO_ADDR] + admins
        elif kind in ("farm", "farm-with-locked-rewards"):
            locked = kind != "farm"
            args = [MEX if locked else REW, LPF if locked else REW, top_u(10 ** 12), ZERO_ADDR, own] + admins
        elif kind == "farm-staking":
            args = [STK, top_u(10 ** 12), top_u(5000), top_u(3), own] + admins
        else:
            ef = sc_addr("efactory")
            vm.acct(ef)
            args = [ef, LOCKED, top_u(1), top_u(0)]
        r = vm.deploy(dep, kind, args, new_addr=self.sc)
        assert r.ok, ("deploy", kind, r)
        self.chain = 1
        self.last = self.observe(True, "")

    def close(self):
        self.vm.close()

    def observe(self, ok, msg):
        vm = self.vm
        perms = {}
        for i in IDS:
            r = vm.query(self.sc, "getPermissions", [self.addr[i]])
            assert r.ok, r
            perms[i] = from_top_u(r.out[0]) if r.out else 0
        st = -1
        if self.kind in PAUSABLE:
            r = vm.query(self.sc, "getState")
            assert r.ok, r
            st = from_top_u(r.out[0]) if r.out else 0
        return dict(ok=ok, msg=msg, perms=perms, state=st, chain=self.chain)

    def exec(self, op):
        vm = self.vm
        k = op[0]
        c = self.addr[op[1]]
        if k in ("AddAdmin", "RemoveAdmin", "UpdateOwner", "ChangeOwner"):
            args = [self.addr[op[2]]]
        elif k in ("AddPausers", "RemovePausers"):
            args = [self.addr[x] for x in op[2]]
        else:
            args = []
        if k == "ChangeOwner":
            assert op[1] == self.chain, "ChangeOwnerAddress is issued by the chain owner only (A-CHANGE-OWNER)"
        r = vm.call(c, self.sc, ENDPOINT[k], args)
        if k == "ChangeOwner" and r.ok:
            self.chain = op[2]
        o = self.observe(r.ok, r.msg)
        o["pre"] = self.last
        self.last = {x: v for x, v in o.items() if x != "pre"}
        return o


# ------------------------------------------------------------------ generation
def gen_cfg(kind, rng):
    cfg = dict(kind=kind, owner=0, admins=[], router_owner=2)
    if kind == "lkmex-transfer":
        return cfg
    r = rng.random()
    n = 0 if r < 0.25 else rng.choice((1, 1, 2, 2, 3))
    pool = [4, 5, 4, 5, 6, 1, 2, 8]
    cfg["admins"] = [rng.choice(pool) for _ in range(n)]
    if kind == "pair":
        cfg["router_owner"] = rng.choice((2, 2, 2, 1, 3))
    else:
        cfg["owner"] = rng.choice((0, 2, 2, 2, 1, 4))
    return cfg


class Gen:
    """mostly-valid generator: reads the last observation (who holds what, who is the chain owner)"""

    def __init__(self, cfg, rng):
        self.cfg, self.rng = cfg, rng
        self.kind = cfg["kind"]
        self.was = {OWNER: set(), ADMIN: set(), PAUSE: set()}    # ever held (to pick "revoked" callers / targets)
        self.prev = None

    def note(self, o):
        for a, p in o["perms"].items():
            for f in (OWNER, ADMIN, PAUSE):
                if p & f:
                    self.was[f].add(a)

    def holders(self, o, f):
        return [a for a in IDS if o["perms"][a] & f]

    def revoked(self, o, f):
        return [a for a in sorted(self.was[f]) if not o["perms"][a] & f]

    def pick_caller(self, o, f, good):
        rng = self.rng
        h = self.holders(o, f)
        rv = self.revoked(o, f)
        r = rng.random()
        if r < good and h:
            return rng.choice(h)
        if r < good + (1 - good) * 0.5 and rv:
            return rng.choice(rv)
        return rng.choice(IDS)

    def addr_list(self, o, removing):
        rng = self.rng
        n = rng.choice((0, 1, 1, 1, 1, 1, 2, 2, 2, 2, 3, 3, 3, 4))
        l = []
        for _ in range(n):
            h = self.holders(o, PAUSE)
            if removing and h and rng.random() < 0.55:
                l.append(rng.choice(h))
            else:
                l.append(rng.choice(IDS))
        if l and rng.random() < 0.4:                       # duplicates, adjacent or not
            l.insert(rng.randrange(len(l) + 1), rng.choice(l))
        return l

    def gen_op(self, o):
        rng = self.rng
        self.note(o)
        pausable = self.kind in PAUSABLE
        if self.prev is not None and rng.random() < 0.12 and self.prev[0] != "ChangeOwner":
            return self.prev                                # the same call again (idempotence, repeated off-boarding)
        w = dict(AddAdmin=14, RemoveAdmin=14, UpdateOwner=5, ChangeOwner=3)
        if pausable:
            w.update(AddPausers=15, RemovePausers=15, Pause=12, Resume=12)
        else:
            w.update(AddAdmin=22, RemoveAdmin=22, UpdateOwner=9, ChangeOwner=5)
        if self.kind == "pair":
            w["SetNoSwaps"] = 4
        k = rng.choices(list(w), weights=list(w.values()))[0]
        if k == "ChangeOwner":
            op = (k, o["chain"], rng.choice((9, 9, 2, 3, 8, 1, o["chain"])))
        elif k == "UpdateOwner":
            c = o["chain"] if rng.random() < 0.78 else rng.choice(IDS)
            op = None
            for _ in range(6):
                r = rng.random()
                own = self.holders(o, OWNER)
                anyh = [a for a in IDS if o["perms"][a]]
                prev = rng.choice(own) if (r < 0.55 and own) else rng.choice(anyh) if (r < 0.8 and anyh) else rng.choice(IDS)
                op = (k, c, prev)
                if c != o["chain"]:
                    break
                left = [a for a in own if a not in (c, prev)]
                if left or o["perms"][prev] & OWNER or rng.random() < 0.1:
                    break                                   # rarely let the contract lose every OWNER holder
        elif k in ("Pause", "Resume"):
            op = (k, self.pick_caller(o, PAUSE, 0.62))
        elif k == "SetNoSwaps":
            op = (k, self.pick_caller(o, OWNER, 0.7))
        else:
            c = self.pick_caller(o, OWNER, 0.74)
            if k == "AddAdmin":
                op = (k, c, rng.choice(IDS))
            elif k == "RemoveAdmin":
                h = self.holders(o, ADMIN)
                op = (k, c, rng.choice(h) if (h and rng.random() < 0.55) else rng.choice(IDS))
            elif k == "AddPausers":
                op = (k, c, tuple(self.addr_list(o, False)))
            else:
                op = (k, c, tuple(self.addr_list(o, True)))
        self.prev = op
        return op


def norm_op(op):
    return tuple(tuple(x) if isinstance(x, list) else x for x in op)


def gen_history(kind, seed, nops):
    rng = random.Random(seed)
    cfg = gen_cfg(kind, rng)
    w = PermWorld(cfg)
    try:
        init = dict(w.last)
        g = Gen(cfg, rng)
        trace = []
        o = w.last
        for _ in range(nops):
            op = g.gen_op(o)
            o = w.exec(op)
            trace.append((op, o))
    finally:
        w.close()
    return cfg, init, trace


def replay_history(cfg, ops):
    w = PermWorld(cfg)
    try:
        init = dict(w.last)
        trace = []
        for op in ops:
            op = norm_op(op)
            trace.append((op, w.exec(op)))
    finally:
        w.close()
    return init, trace


# ------------------------------------------------------------------ Coq emission
def zl(l):
    return "[" + "; ".join(str(x) for x in l) + "]"


def coq_init(cfg):
    k = cfg["kind"]
    if k == "pair":
        return f"(pinit_pair 1 3 {cfg['router_owner']} {zl(cfg['admins'])})"
    if k == "lkmex-transfer":
        return "(pinit_lkmex 1)"
    return f"(pinit_farm 1 {cfg['owner']} {zl(cfg['admins'])})"


def coq_op(op):
    k = op[0]
    if k == "AddAdmin":
        return f"XBase (PmAddAdmin {op[1]} {op[2]})"
    if k == "RemoveAdmin":
        return f"XBase (PmRemoveAdmin {op[1]} {op[2]})"
    if k == "UpdateOwner":
        return f"XBase (PmUpdateOwnerOrAdmin {op[1]} {op[2]})"
    if k == "AddPausers":            # the one-address call is the operation Model/Access.v already has
        return f"XBase (PmAddPauser {op[1]} {op[2][0]})" if len(op[2]) == 1 else f"XAddPausers {op[1]} {zl(op[2])}"
    if k == "RemovePausers":
        return f"XBase (PmRemovePauser {op[1]} {op[2][0]})" if len(op[2]) == 1 else f"XRemovePausers {op[1]} {zl(op[2])}"
    if k == "Pause":
        return f"XBase (PmPause {op[1]})"
    if k == "Resume":
        return f"XBase (PmResume {op[1]})"
    if k == "SetNoSwaps":
        return f"XBase (PmSetStateActiveNoSwaps {op[1]})"
    if k == "ChangeOwner":
        return f"XChangeOwner {op[1]} {op[2]}"
    raise ValueError(op)


def coq_obs(o):
    ps = "; ".join(f"({a}, {o['perms'][a]})" for a in IDS)
    st = o["state"]
    return f"(mkPObs {'true' if o['ok'] else 'false'} [{ps}] {st if st >= 0 else '(-1)'})"


def coq_history(cfg, init, trace):
    body = "; ".join(f"({coq_op(op)}, {coq_obs(o)})" for op, o in trace)
    return f"(check_history {coq_init(cfg)} {coq_obs(init)} [{body}])"


FIELD_NAMES = {0: "status (1 = Ok)", 1: "stored State"}


def field_name(f):
    return FIELD_NAMES.get(f, f"permission bits of address {f - 100} ({NAMES.get(f - 100, '?')})")
