"""Farm subsystem: real dex/farm (+ energy-factory-mock, permissions-hub) through mxvm.

Model ids: OWNER = 100, users 1..NUSERS.  Position key in the ledger: nonce*1000 + holder.
The boosted payout [b] of an operation is observed (returned separately by enter / merge /
claimBoosted; for claim / exit it is derived from the change of the boosted pools, see `exec`)."""
import random
from vmx import *

REW = b"REW-abcdef"
LPF = b"LPFARM-abcdef"
FARM = b"FARM-abcdef"
NUSERS = 3
OWNER = 100
MAXP = 10000
BIG = 10 ** 60


def zlit(n):
    return f"({n})" if n < 0 else str(n)


def dec_attrs(b: bytes):
    d = Dec(b)
    rps = d.big()
    ep = d.u64()
    comp = d.big()
    amt = d.big()
    owner = d.addr()
    return rps, ep, comp, amt, owner


class FarmWorld:
    CODE = "farm"

    def __init__(self, cfg):
        """cfg: dsc, same(bool), rate, pct, factors (None or 5-tuple), energies {user: (energy, locked)}"""
        self.cfg = cfg
        vm = self.vm = VM()
        self.addr = {OWNER: user_addr("owner")}
        for u in range(1, NUSERS + 1):
            self.addr[u] = user_addr(f"user{u}")
        self.ids = {v: k for k, v in self.addr.items()}
        self.farm = sc_addr("farm1")
        self.efact = sc_addr("efactory")
        self.hub = sc_addr("permhub")
        for a in self.addr.values():
            vm.acct(a)
        self.blk, self.ep = 10, 5
        vm.block(nonce=self.blk, round_=self.blk, epoch=self.ep, ts=6 * self.blk)
        own = self.addr[OWNER]
        self.rew = REW
        self.farming = REW if cfg["same"] else LPF
        r = vm.deploy(own, "energy-factory-mock", [], new_addr=self.efact)
        assert r.ok, r
        r = vm.deploy(own, "permissions-hub", [], new_addr=self.hub)
        assert r.ok, r
        r = vm.deploy(own, self.CODE, [self.rew, self.farming, top_u(cfg["dsc"]), ZERO_ADDR, own], new_addr=self.farm)
        assert r.ok, r
        vm.sset(self.farm, b"farm_token_id", FARM)
        vm.roles(self.farm, FARM, ["ESDTRoleNFTCreate", "ESDTRoleNFTAddQuantity", "ESDTRoleNFTBurn"])
        vm.roles(self.farm, self.rew, ["ESDTRoleLocalMint", "ESDTRoleLocalBurn"])
        if not cfg["same"]:
            vm.roles(self.farm, self.farming, ["ESDTRoleLocalBurn"])
        assert vm.call(own, self.farm, "setEnergyFactoryAddress", [self.efact]).ok
        assert vm.call(own, self.farm, "setPermissionsHubAddress", [self.hub]).ok
        for u in range(1, NUSERS + 1):
            vm.setbal(self.addr[u], self.farming, 0, BIG)
        vm.setbal(own, self.rew, 0, BIG)
        self.first_epoch = self.ep
        self.nonces = []            # every farm-token nonce ever seen
        self.attr = {}              # nonce -> (rps, epoch, comp, amt, owner id) as read from the real token
        self.donated = 0
        self.shadow = dict(rate=0, produce=False, pct=0, factors=False, last=0, state=0, minep=3, pen=100)
        self.last = self.observe()
        self.last["attrs"] = {}

    def close(self):
        self.vm.close()

    # ------------------------------------------------------------ observation
    def q(self, f, args=()):
        r = self.vm.query(self.farm, f, args)
        assert r.ok, (f, r)
        return from_top_u(r.out[0]) if r.out else 0

    def week(self):
        return (self.ep - self.first_epoch) // 7 + 1

    def pools(self):
        tot = self.q("getUndistributedBoostedRewards")
        for w in range(1, self.week() + 1):
            tot += self.q("getAccumulatedRewardsForWeek", [top_u(w)])
            tot += self.q("getRemainingBoostedRewardsToDistribute", [top_u(w)])
        return tot

    def observe(self):
        vm = self.vm
        o = dict(supply=self.q("getFarmTokenSupply"), reserve=self.q("getRewardReserve"), rps=self.q("getRewardPerShare"),
                 last=self.q("getLastRewardBlockNonce"), bal_rew=vm.bal(self.farm, self.rew),
                 bal_farming=vm.bal(self.farm, self.farming), pool=self.pools(),
                 state=self.q("getState"))
        o["utot"] = {u: self.q("getUserTotalFarmPosition", [self.addr[u]]) for u in range(1, NUSERS + 1)}
        held = {}
        for u in range(1, NUSERS + 1):
            bal = {n: a for (t, n, a) in vm.tokens(self.addr[u]) if t == FARM}
            for n in bal:
                if n not in self.nonces:
                    self.nonces.append(n)
            for n in self.nonces:
                held[n * 1000 + u] = bal.get(n, 0)
        o["held"] = held
        o["farm_held"] = sum(a for (t, n, a) in vm.tokens(self.farm) if t == FARM)
        return o

    def attrs_of(self, n):
        # attributes are readable from any holder of the nonce
        for u in range(1, NUSERS + 1):
            b = self.vm.attrs(self.addr[u], FARM, n)
            if b:
                rps, ep, comp, amt, owner = dec_attrs(b)
                return (rps, ep, comp, amt, self.ids.get(owner, -1))
        return None

    # ------------------------------------------------------------ execution
    def expected_cut(self, blk):
        sh = self.shadow
        if blk <= sh["last"] or not sh["produce"]:
            return 0
        tot = sh["rate"] * (blk - sh["last"])
        if sh["pct"] == 0 or not sh["factors"]:
            return 0
        return tot * sh["pct"] // MAXP

    def exec(self, op):
        vm = self.vm
        A = self.addr
        k = op[0]
        if k == "Time":
            self.blk += op[1]
            self.ep += op[2]
            vm.block(nonce=self.blk, round_=self.blk, epoch=self.ep, ts=6 * self.blk)
            return None
        if k == "Energy":
            _, u, en, locked = op
            r = vm.call(A[OWNER], self.efact, "setUserEnergy", [A[u], top_u(en), top_u(locked)])
            assert r.ok
            return None
        if k == "Upgrade":
            # contract upgrade by the owner: on a configured farm it must change nothing (first_week_start_epoch and the
            # farm-position migration nonce are set only while empty); an environment step for the model
            r = vm.call(A[OWNER], self.farm, "upgrade", [])
            assert r.ok, r
            return None
        pre_pool = self.last["pool"]
        pre_cfg = dict(self.shadow)
        pays = lambda ps: [(FARM, n, x) for (n, x) in ps]
        outs, b, settles = [], 0, False
        if k == "Enter":
            _, c, amt, adds = op
            r = vm.call(A[c], self.farm, "enterFarm", [], [(self.farming, 0, amt)] + pays(adds))
            if r.ok:
                p0, p1 = dec_payment(r.out[0]), dec_payment(r.out[1])
                outs, b = [p0[1], p0[2], p1[2]], p1[2]
            settles = True
        elif k == "Claim":
            _, c, first, adds = op
            r = vm.call(A[c], self.farm, "claimRewards", [], pays([first] + adds))
            if r.ok:
                p0, p1 = dec_payment(r.out[0]), dec_payment(r.out[1])
                outs = [p0[1], p0[2], p1[2]]
            settles = True
        elif k == "Compound":
            _, c, first, adds = op
            r = vm.call(A[c], self.farm, "compoundRewards", [], pays([first] + adds))
            if r.ok:
                p0 = dec_payment(r.out[0])
                outs = [p0[1], p0[2]]
            settles = True
        elif k == "Exit":
            _, c, p = op
            r = vm.call(A[c], self.farm, "exitFarm", [], pays([p]))
            if r.ok:
                p0, p1 = dec_payment(r.out[0]), dec_payment(r.out[1])
                outs = [p0[2], p1[2]]
            settles = True
        elif k == "Merge":
            _, c, ps = op
            r = vm.call(A[c], self.farm, "mergeFarmTokens", [], pays(ps))
            if r.ok:
                p0, p1 = dec_payment(r.out[0]), dec_payment(r.out[1])
                outs, b = [p0[1], p0[2], p1[2]], p1[2]
        elif k == "ClaimBoosted":
            _, c = op
            r = vm.call(A[c], self.farm, "claimBoostedRewards", [])
            if r.ok:
                p0 = dec_payment(r.out[0])
                outs, b = [p0[2]], p0[2]
            settles = True
        elif k == "Transfer":
            _, n, s, d, amt = op
            r = vm.transfer(A[s], A[d], [(FARM, n, amt)])
        elif k == "SetRate":
            r = vm.call(A[op[1]], self.farm, "setPerBlockRewardAmount", [top_u(op[2])])
            settles = True
        elif k == "Start":
            r = vm.call(A[op[1]], self.farm, "startProduceRewards", [])
        elif k == "End":
            r = vm.call(A[op[1]], self.farm, "endProduceRewards", [])
            settles = True
        elif k == "SetPct":
            r = vm.call(A[op[1]], self.farm, "setBoostedYieldsRewardsPercentage", [top_u(op[2])])
            settles = True
        elif k == "SetFactors":
            _, c, fac = op
            r = vm.call(A[c], self.farm, "setBoostedYieldsFactors", [top_u(x) for x in fac])
        elif k == "SetState":
            r = vm.call(A[op[1]], self.farm, "resume" if op[2] == 1 else "pause", [])
        elif k == "SetMinEpochs":
            r = vm.call(A[op[1]], self.farm, "set_minimum_farming_epochs", [top_u(op[2])])
        elif k == "SetPenalty":
            r = vm.call(A[op[1]], self.farm, "set_penalty_percent", [top_u(op[2])])
        elif k == "TopUp":
            r = vm.transfer(A[OWNER], self.farm, [(self.rew, 0, op[1])])
        else:
            raise ValueError(k)
        cut = self.expected_cut(self.blk) if (settles and r.ok) else 0
        o = self.observe()
        o["ok"], o["msg"], o["outs"] = r.ok, r.msg, outs
        if r.ok and k in ("Claim", "Exit", "Compound"):
            b = pre_pool + cut - o["pool"]          # boosted part of the combined reward payment
        o["b"] = b if r.ok else 0
        o["blk"], o["ep"] = self.blk, self.ep
        o["new_attrs"] = {}
        if r.ok and k in ("Enter", "Claim", "Compound", "Merge"):
            n = outs[0]
            o["new_attrs"][n] = self.attrs_of(n)
            self.attr[n] = o["new_attrs"][n]
        if r.ok and k == "TopUp":
            self.donated += op[1]
        o["attrs"] = dict(self.attr)
        o["donated"] = self.donated
        o["cfg"] = dict(self.shadow)
        if r.ok:
            sh = self.shadow
            if settles and self.blk > sh["last"]:
                sh["last"] = self.blk
            if k == "SetRate": sh["rate"] = op[2]
            elif k == "Start": sh["produce"], sh["last"] = True, self.blk
            elif k == "End": sh["produce"] = False
            elif k == "SetPct": sh["pct"] = op[2]
            elif k == "SetFactors": sh["factors"] = True
            elif k == "SetState": sh["state"] = op[2]
            elif k == "SetMinEpochs": sh["minep"] = op[2]
            elif k == "SetPenalty": sh["pen"] = op[2]
        o["pre"] = self.last
        o["pre_cfg"] = pre_cfg
        o["settles"] = settles
        self.last = {x: o[x] for x in ("supply", "reserve", "rps", "last", "bal_rew", "bal_farming", "pool", "state", "utot", "held", "farm_held", "attrs")}
        return o


# ------------------------------------------------------------------ Coq emission
def pl(ps):
    return "[" + "; ".join(f"({n}, {x})" for n, x in ps) + "]"


def coq_op(op, o):
    k = op[0]
    blk, ep, b = o["blk"], o["ep"], o["b"]
    if k == "Enter":
        return f"FEnter {blk} {ep} {op[1]} {op[2]} {pl(op[3])} {zlit(b)}"
    if k == "Claim":
        return f"FClaim {blk} {ep} {op[1]} ({op[2][0]}, {op[2][1]}) {pl(op[3])} {zlit(b)}"
    if k == "Compound":
        return f"FCompound {blk} {ep} {op[1]} ({op[2][0]}, {op[2][1]}) {pl(op[3])} {zlit(b)}"
    if k == "Exit":
        return f"FExit {blk} {ep} {op[1]} ({op[2][0]}, {op[2][1]}) {zlit(b)}"
    if k == "Merge":
        return f"FMerge {blk} {ep} {op[1]} {pl(op[2])} {zlit(b)}"
    if k == "ClaimBoosted":
        return f"FClaimBoosted {blk} {ep} {op[1]} {zlit(b)}"
    if k == "Transfer":
        return f"FTransfer {op[1]} {op[2]} {op[3]} {op[4]}"
    if k == "SetRate":
        return f"FSetRate {blk} {op[1]} {op[2]}"
    if k == "Start":
        return f"FStart {blk} {op[1]}"
    if k == "End":
        return f"FEnd {blk} {op[1]}"
    if k == "SetPct":
        return f"FSetPct {blk} {op[1]} {op[2]}"
    if k == "SetFactors":
        return f"FSetFactors {op[1]}"
    if k == "SetState":
        return f"FSetState {op[1]} {op[2]}"
    if k == "SetMinEpochs":
        return f"FSetMinEpochs {op[1]} {op[2]}"
    if k == "SetPenalty":
        return f"FSetPenalty {op[1]} {op[2]}"
    if k == "TopUp":
        return f"FTopUp {op[1]}"
    raise ValueError(k)


def coq_pairs(items):
    return "[" + "; ".join(f"({zlit(k)}, {zlit(v)})" for k, v in items) + "]"


def coq_obs(o):
    outs = "[" + "; ".join(zlit(x) for x in o["outs"]) + "]"
    at = "[" + "; ".join(f"({n}, ({a[0]}, {a[1]}, {a[2]}, {a[3]}, {zlit(a[4])}))" for n, a in o["new_attrs"].items() if a) + "]"
    return (f"mkFObs {'true' if o['ok'] else 'false'} {outs} {o['supply']} {o['reserve']} {o['rps']} {o['last']} "
            f"{o['bal_rew']} {o['bal_farming']} {o['pool']} {coq_pairs(sorted(o['utot'].items()))} "
            f"{coq_pairs(sorted(o['held'].items()))} {at}")


def coq_history(cfg, trace):
    items = ";\n    ".join(f"({coq_op(op, o)}, {coq_obs(o)})" for op, o in trace)
    return f"(check_trace (init_farm {cfg['dsc']} {'true' if cfg['same'] else 'false'}) 0 [\n    {items}])"


# ------------------------------------------------------------------ generation
def log_amount(rng, hi=10 ** 24):
    e = rng.uniform(0, len(str(hi)) - 1)
    return max(1, int(10 ** e) + rng.randint(0, 9))


def gen_cfg(rng):
    return dict(dsc=rng.choice([1, 10, 10 ** 6, 10 ** 12, 10 ** 12, 10 ** 18]), same=rng.random() < 0.3,
                boost=rng.random() < 0.6)


def positions_of(w, u):
    return [(k // 1000, v) for k, v in w.last["held"].items() if k % 1000 == u and v > 0]


def gen_op(rng, w):
    sh = w.shadow
    _pend = w.__dict__.setdefault("pending", [])
    if _pend:
        return _pend.pop(0)
    users = list(range(1, NUSERS + 1))
    c = rng.choice(users)
    roll = rng.random()
    # bring-up
    if sh["rate"] == 0 and roll < 0.7:
        return ["SetRate", OWNER, rng.choice([1, 1000, 10 ** 6, 10 ** 18, log_amount(rng)])]
    if sh["state"] != 1 and roll < 0.7:
        return ["SetState", OWNER, 1]
    if sh["rate"] != 0 and not sh["produce"] and roll < 0.6:
        # production was stopped (or never started): let an idle gap pass before the restart about a third of the
        # time, so that "restart is not retroactive" is exercised with blocks between endProduceRewards and start
        if roll < 0.2 and sh.get("last", 0) >= w.blk:
            return ["Time", rng.choice([1, 3, 10, 100]), rng.choice([7, 7, 8, 14, 1, 35])]
        return ["Start", OWNER]
    if w.cfg.get("boost"):
        st = w.__dict__.setdefault("boost_stage", 0)
        if st == 0:
            w.boost_stage = 1
            return ["SetPct", OWNER, rng.choice([2500, 2500, 1, 5000, 9999, 10000])]
        if st == 1:
            w.boost_stage = 2
            return ["SetFactors", OWNER, [rng.choice([1, 2, 10]), rng.choice([0, 1, 3]), rng.choice([1, 2]), rng.choice([1, 10]), rng.choice([1, 100])]]
        if st in (2, 3, 4):
            w.boost_stage = st + 1
            return ["Energy", st - 1, log_amount(rng, 10 ** 9) + 100, log_amount(rng, 10 ** 6) + 10]
        if roll < 0.10:
            return ["Time", rng.choice([1, 3, 10, 100]), rng.choice([7, 7, 8, 14, 1, 35])]
    if roll < 0.12:
        return ["Time", rng.choice([1, 1, 3, 10, 100, 1000]), rng.choice([0, 0, 1, 1, 3, 7, 8, 30])]
    if roll < 0.16:
        return ["Energy", c, log_amount(rng, 10 ** 12), log_amount(rng, 10 ** 9)]
    if roll < 0.24:
        kind = rng.random()
        who = rng.choice([OWNER] * 6 + users)
        if kind < 0.2:
            _val = rng.choice([0, 1, 1000, 10 ** 6, log_amount(rng)])
            if who == OWNER and rng.random() < 0.5:
                # blocks pass first: they must be settled with the OLD parameters (changes are never retroactive)
                _pend.append(["SetRate", OWNER, _val])
                return ["Time", rng.choice([1, 3, 10, 100]), 0]
            return ["SetRate", who, _val]
        if kind < 0.3:
            if who == OWNER and rng.random() < 0.5:
                _pend.append(["End", OWNER])
                return ["Time", rng.choice([1, 3, 10, 100]), 0]
            return ["End", who]
        if kind < 0.5:
            _val = rng.choice([0, 1, 2500, 2500, 9999, 10000, 10001])
            if who == OWNER and rng.random() < 0.5:
                # blocks pass first: they must be settled with the OLD parameters (changes are never retroactive)
                _pend.append(["SetPct", OWNER, _val])
                return ["Time", rng.choice([1, 3, 10, 100]), 0]
            return ["SetPct", who, _val]
        if kind < 0.7:
            return ["SetFactors", who, [rng.choice([1, 2, 10]), rng.choice([0, 1, 3]), rng.choice([1, 2]), rng.choice([1, 10]), rng.choice([1, 100])]]
        if kind < 0.78:
            return ["SetState", who, rng.choice([0, 1, 1])]
        if kind < 0.86:
            return ["SetMinEpochs", who, rng.choice([0, 1, 3, 30, 31])]
        if kind < 0.93:
            return ["SetPenalty", OWNER, rng.choice([0, 1, 100, 9999, 10000])]
        return ["TopUp", log_amount(rng, 10 ** 9)]
    if type(w).__name__ in ("FarmWorld", "LockedFarmWorld", "StakingPosWorld") and w.last["supply"] > 0 and rng.random() < 0.02:
        return ["Upgrade"]          # only the base worlds (their derived worlds have their own observation code)
    mine = positions_of(w, c)
    if roll < 0.42 or not mine:
        amt = rng.choice([1, 2, rng.randint(1, 100), log_amount(rng), log_amount(rng)])
        adds = []
        if mine and rng.random() < 0.35:
            for (n, v) in rng.sample(mine, min(len(mine), rng.randint(1, 3))):
                adds.append((n, v if rng.random() < 0.6 else rng.randint(1, v)))
        return ["Enter", c, amt, adds]
    part = lambda v: v if rng.random() < 0.55 else rng.randint(1, v)
    if roll < 0.58:
        sel = rng.sample(mine, min(len(mine), rng.choice([1, 1, 1, 2, 3])))
        ps = [(n, part(v)) for n, v in sel]
        return ["Claim", c, ps[0], ps[1:]]
    if roll < 0.70:
        n, v = rng.choice(mine)
        return ["Exit", c, (n, part(v))]
    if roll < 0.78:
        sel = rng.sample(mine, min(len(mine), rng.choice([1, 2, 2, 3, 4])))
        return ["Merge", c, [(n, part(v)) for n, v in sel]]
    if roll < 0.84:
        return ["ClaimBoosted", c]
    if roll < 0.92:
        n, v = rng.choice(mine)
        return ["Transfer", n, c, rng.choice([u for u in users if u != c]), part(v)]
    sel = rng.sample(mine, min(len(mine), rng.choice([1, 1, 2])))
    ps = [(n, part(v)) for n, v in sel]
    return ["Compound", c, ps[0], ps[1:]]


def gen_history(seed, nops, world=FarmWorld):
    rng = random.Random(seed)
    cfg = gen_cfg(rng)
    w = world(cfg)
    trace = []
    try:
        for _ in range(nops):
            op = gen_op(rng, w)
            trace.append((op, w.exec(op)))
    finally:
        w.close()
    return cfg, trace


def replay_history(cfg, ops, world=FarmWorld):
    w = world(cfg)
    trace = []
    try:
        for op in ops:
            trace.append((op, w.exec(op)))
    finally:
        w.close()
    return trace
