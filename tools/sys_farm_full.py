"""dex/farm as a whole (closed model coq/Model/FarmFull.v): tools/sys_farm.py's FarmWorld with boosted yields on,
observed on the farm side by FarmWorld.observe and on the boosted-module side by tools/sys_boosted.py's
BoostWorld.observe (both reused by import), plus the two endpoints FarmWorld does not drive
(collectUndistributedBoostedRewards, updateEnergyForUser).

Nothing the closed model computes is handed to it: an operation carries only the caller's arguments and, for the
endpoints that read the caller's energy, the energy factory's STORED entry of that user at the time of the call
(raw storage of the factory contract: amount, last update epoch, total locked tokens; absent = None).  The clock
moves by explicit Time operations."""
import random
import sys_farm as sf
import sys_boosted as sb
from vmx import *

OWNER = sf.OWNER
USERS = list(range(1, sf.NUSERS + 1))
USER_OPS = ("Enter", "Claim", "Compound", "Exit", "Merge", "ClaimBoosted")
SETTLING = ("Enter", "Claim", "Compound", "Exit", "ClaimBoosted", "SetRate", "End", "SetPct")
MAXP = 10000
KEEP = ("supply", "reserve", "rps", "last", "bal_rew", "bal_farming", "pool", "state", "utot", "held", "farm_held", "attrs")


class FullWorld(sf.FarmWorld):
    def __init__(self, cfg):
        cfg = dict(cfg, boost=True)
        sf.FarmWorld.__init__(self, cfg)
        # sys_boosted's observer looks at users 1..4: the 4th exists, owns nothing and never acts
        for u in sb.USERS:
            if u not in self.addr:
                self.addr[u] = user_addr(f"user{u}")
                self.vm.acct(self.addr[u])
        self.ids = {v: k for k, v in self.addr.items()}
        self.owner_of = {}
        self.lastm = sb.BoostWorld.observe(self)
        # harness-side ledgers for the link monitors (never fed back into the contracts)
        self.g_pool = 0          # farm side: sum of the cuts the farm took out of its emissions - boosted payments made
        self.g_paid = {}         # week -> boosted payments made for it
        self.g_frozen = {}       # week -> R
        self.g_used_f = {}       # week -> sum of the positions the settlements of that week's pool were computed with
        self.g_used_e = {}       # week -> sum of the (decayed) energies they were computed with

    def raw_entry(self, u):
        """the energy factory's stored entry for user u (what energy-query reads), or None"""
        v = self.vm.sget(self.efact, b"userEnergy" + self.addr[u])
        if not v:
            return None
        d = Dec(v)
        e = sb.dec_energy(d)
        assert d.done()
        return list(e)

    def _plain(self, r, k):
        """farm-side observation of an operation FarmWorld.exec does not know"""
        o = self.observe()
        o["ok"], o["msg"], o["outs"], o["b"] = r.ok, r.msg, [], 0
        o["blk"], o["ep"] = self.blk, self.ep
        o["new_attrs"] = {}
        o["attrs"] = dict(self.attr)
        o["donated"] = self.donated
        o["cfg"] = dict(self.shadow)
        o["pre"] = self.last
        o["pre_cfg"] = dict(self.shadow)
        o["settles"] = False
        self.last = {x: o[x] for x in KEEP}
        return o

    def exec(self, op):
        vm, A, k = self.vm, self.addr, op[0]
        prem = self.lastm
        if k == "Energy":
            return sf.FarmWorld.exec(self, op)
        user = op[1] if k in USER_OPS else (op[2] if k == "UpdateEnergy" else None)
        raw = self.raw_entry(user) if user in USERS else None
        pre_rate, pre_last, pre_prod = self.shadow["rate"], self.shadow["last"], self.shadow["produce"]
        if k == "Time":
            sf.FarmWorld.exec(self, op)
            o = self._plain(Result(0, "", []), k)
        elif k == "Collect":
            o = self._plain(vm.call(A[op[1]], self.farm, "collectUndistributedBoostedRewards", []), k)
        elif k == "UpdateEnergy":
            o = self._plain(vm.call(A[op[1]], self.farm, "updateEnergyForUser", [A[op[2]]]), k)
        else:
            o = sf.FarmWorld.exec(self, op)
        m = sb.BoostWorld.observe(self)
        m["ok"], m["msg"] = o["ok"], o["msg"]
        cw = m["week"]
        paid = {}
        if o["ok"] and k not in ("Collect", "Time"):
            for w in set(prem["acc"]) | set(prem["rem"]):
                if w < cw:
                    d = prem["acc"].get(w, 0) + prem["rem"].get(w, 0) - m["acc"].get(w, 0) - m["rem"].get(w, 0)
                    if d != 0:
                        paid[w] = d
        m["paid"] = paid
        m["b"] = sum(paid.values())
        m["cut"] = (m["acc"].get(cw, 0) - prem["acc"].get(cw, 0)) if (o["ok"] and k != "Time") else 0
        m["pre"] = prem
        o["m"] = m
        o["raw"] = raw
        # farm-side emission of this operation's settlement (before the op: rate, last reward block, producing)
        o["emission"] = pre_rate * (self.blk - pre_last) if (o["ok"] and k in SETTLING and pre_prod and self.blk > pre_last) else 0
        # ledgers
        if o["ok"]:
            for w, r in m["rewards"].items():
                if r and not prem["rewards"].get(w) and w not in self.g_frozen:
                    self.g_frozen[w] = r[0]
            for w, x in paid.items():
                self.g_paid[w] = self.g_paid.get(w, 0) + x
            if k in USER_OPS and user in USERS:
                pg = prem["prog"].get(user)
                if pg is not None and prem["cfg"] is not None:
                    for w in range(max(pg[3], cw - sb.MAX_CLAIM_WEEKS), cw):
                        self.g_used_f[w] = self.g_used_f.get(w, 0) + o["pre"]["utot"][user]
                        self.g_used_e[w] = self.g_used_e.get(w, 0) + sb.decayed(pg, w)
        o["ledger"] = dict(paid=dict(self.g_paid), frozen=dict(self.g_frozen), used_f=dict(self.g_used_f), used_e=dict(self.g_used_e))
        self.lastm = {x: v for x, v in m.items() if x != "pre"}
        return o


# ------------------------------------------------------------------ Coq emission
def coq_raw(raw):
    return "None" if raw is None else f"(Some {sb.coq_en(raw)})"


def coq_op(op, o):
    k = op[0]
    pl = sf.pl
    if k == "Time":
        return f"XTime {op[1]} {op[2]}"
    if k == "Enter":
        return f"XEnter {op[1]} {op[2]} {pl(op[3])} {coq_raw(o['raw'])}"
    if k == "Claim":
        return f"XClaim {op[1]} ({op[2][0]}, {op[2][1]}) {pl(op[3])} {coq_raw(o['raw'])}"
    if k == "Compound":
        return f"XCompound {op[1]} ({op[2][0]}, {op[2][1]}) {pl(op[3])} {coq_raw(o['raw'])}"
    if k == "Exit":
        return f"XExit {op[1]} ({op[2][0]}, {op[2][1]}) {coq_raw(o['raw'])}"
    if k == "Merge":
        return f"XMerge {op[1]} {pl(op[2])} {coq_raw(o['raw'])}"
    if k == "ClaimBoosted":
        return f"XClaimBoosted {op[1]} {coq_raw(o['raw'])}"
    if k == "Transfer":
        return f"XTransfer {op[1]} {op[2]} {op[3]} {op[4]}"
    if k == "SetRate":
        return f"XSetRate {op[1]} {op[2]}"
    if k == "Start":
        return f"XStart {op[1]}"
    if k == "End":
        return f"XEnd {op[1]}"
    if k == "SetPct":
        return f"XSetPct {op[1]} {op[2]}"
    if k == "SetFactors":
        return f"XSetFactors {op[1]} {sb.coq_fac(op[2])}"
    if k == "SetState":
        return f"XSetState {op[1]} {op[2]}"
    if k == "SetMinEpochs":
        return f"XSetMinEpochs {op[1]} {op[2]}"
    if k == "SetPenalty":
        return f"XSetPenalty {op[1]} {op[2]}"
    if k == "TopUp":
        return f"XTopUp {op[1]}"
    if k == "Collect":
        return f"XCollect {op[1]}"
    if k == "UpdateEnergy":
        return f"XUpdateEnergy {op[1]} {op[2]} {coq_raw(o['raw'])}"
    raise ValueError(k)


def coq_obs(o):
    return f"mkXObs ({sf.coq_obs(o)}) ({sb.coq_obs(o['m'])}) {sf.zlit(o['b'])} {o['blk']}"


def coq_history(cfg, trace):
    items = ";\n    ".join(f"({coq_op(op, o)}, {coq_obs(o)})" for op, o in trace if o is not None)
    return f"(check_trace (init_x {cfg['dsc']} {'true' if cfg['same'] else 'false'} 10 5) 0 [\n    {items}])"


# ------------------------------------------------------------------ generation
def gen_cfg(rng):
    return dict(dsc=rng.choice([1, 10, 10 ** 6, 10 ** 12, 10 ** 12, 10 ** 18]), same=rng.random() < 0.4, boost=True,
                late_factors=rng.random() < 0.25)


def gen_factors(rng):
    return [rng.choice([0, 1, 2, 2, 3, 10, 1000]), rng.choice([0, 1, 3, 3, 7]), rng.choice([0, 1, 2, 2, 5]),
            rng.choice([1, 1, 10, 1000]), rng.choice([1, 1, 2, 100])]


def user_op(rng, w, c, kinds, must=None):
    mine = sf.positions_of(w, c)
    part = lambda v: v if rng.random() < 0.6 else rng.randint(1, v)
    kind = rng.choice(kinds)
    if not mine and kind != "ClaimBoosted":
        kind = "Enter"
    if kind == "Compound" and not w.cfg["same"]:
        kind = "Claim"

    def pick(maxn):
        sel = rng.sample(mine, min(len(mine), rng.choice(maxn)))
        if must is not None:
            sel = [(n, v) for n, v in mine if n == must] + [(n, v) for n, v in sel if n != must]
        return [(n, part(v)) for n, v in sel]

    if kind == "Enter":
        adds = pick([1, 1, 2]) if (mine and (must is not None or rng.random() < 0.3)) else []
        return ["Enter", c, rng.choice([1, rng.randint(1, 100), sf.log_amount(rng)]), adds]
    if kind in ("Claim", "Compound"):
        ps = pick([1, 1, 2, 3])
        return [kind, c, ps[0], ps[1:]]
    if kind == "Exit":
        return ["Exit", c, pick([1])[0]]
    if kind == "Merge":
        return ["Merge", c, pick([1, 2, 2, 3])]
    return ["ClaimBoosted", c]


ALL_KINDS = ["ClaimBoosted", "Claim", "ClaimBoosted", "Enter", "Exit", "Merge", "Compound"]


def gen_op(rng, w):
    script = w.__dict__.setdefault("script", [])
    if script:
        nxt = script.pop(0)
        return nxt(rng, w) if callable(nxt) else nxt
    if w.cfg.get("late_factors") and getattr(w, "boost_stage", 0) == 1 and not w.shadow["factors"]:
        # percentage > 0 while no factors are configured: sys_farm's bring-up would set them right away; here they come
        # later (the admin share of the generator), after users entered / settled / weeks passed without a config
        w.boost_stage = 2
        return ["Time", rng.choice([1, 10]), 0]
    if getattr(w, "boost_stage", 0) >= 5 and w.shadow["produce"] and w.shadow["state"] == 1:
        if not w.__dict__.get("x_started"):
            # every user gets an energy entry of sys_boosted's classes (long locks, locks running out inside the claim
            # window, below the minimum, zero, tokens without energy) and most of them a first position
            w.x_started = True
            for u in USERS:
                en, tok = sb.gen_energy(rng, rng.choice([1, 1, 1000]), None)
                script.append(["Energy", u, en, tok])
            for u in rng.sample(USERS, rng.choice([2, 3, 3])):
                script.append(["Enter", u, rng.choice([1, rng.randint(1, 100), sf.log_amount(rng)]), []])
            return script.pop(0)
        roll = rng.random()
        holders = [u for u in USERS if sf.positions_of(w, u)]
        if roll < 0.04:
            return ["Collect", rng.choice([OWNER] * 5 + [1])]
        if roll < 0.07:
            return ["UpdateEnergy", rng.choice(USERS), rng.choice(USERS)]
        if roll < 0.07 + 0.02:
            en, tok = sb.gen_energy(rng, rng.choice([1, 1, 1000]), None)
            return ["Energy", rng.choice(USERS), en, tok]
        if roll < 0.18:
            # a week change, followed by some holders settling (pools freeze, claim progress moves) ...
            weeks = rng.choice([1, 1, 1, 1, 1, 2, 2, 3, 4, 5, 6])
            if holders:
                for u in sorted(set(rng.choice(holders) for _ in range(rng.choice([1, 2, 3])))):
                    script.append((lambda uu: (lambda r, ww: user_op(r, ww, uu, ALL_KINDS)))(u))
            # ... sometimes right after new factors, an energy change or a position changing hands in the new week
            if rng.random() < 0.25:
                script.insert(0, ["SetFactors", OWNER, gen_factors(rng)])
            if rng.random() < 0.3:
                script.insert(0, ["Energy", rng.choice(USERS), sf.log_amount(rng, 10 ** 12), sf.log_amount(rng, 10 ** 9)])
            if holders and rng.random() < 0.5:
                src = rng.choice(holders)
                n, v = rng.choice(sf.positions_of(w, src))
                dst = rng.choice([u for u in USERS if u != src])
                scen = [["ClaimBoosted", src]] if rng.random() < 0.5 else []
                scen.append(["Transfer", n, src, dst, v if rng.random() < 0.7 else rng.randint(1, v)])
                scen.append((lambda dd, nn: (lambda r, ww: user_op(r, ww, dd, ["Compound", "Claim", "Enter", "Merge", "Exit"], must=nn)))(dst, n))
                script[0:0] = scen
            return ["Time", rng.choice([1, 10, 100, 1000]), 7 * weeks + rng.choice([0, 0, 0, 1, 3])]
        if roll < 0.24 and holders:
            src = rng.choice(holders)
            n, v = rng.choice(sf.positions_of(w, src))
            dst = rng.choice([u for u in USERS if u != src])
            script.append((lambda dd, nn: (lambda r, ww: user_op(r, ww, dd, ["Compound", "Claim", "Enter", "Merge", "Exit"], must=nn)))(dst, n))
            return ["Transfer", n, src, dst, v if rng.random() < 0.7 else rng.randint(1, v)]
        if roll < (0.27 if w.shadow["factors"] else 0.30):
            return ["SetFactors", rng.choice([OWNER] * 5 + [2]), gen_factors(rng) if rng.random() < 0.85 else [1, 1, 1, rng.choice([0, 1]), rng.choice([0, 1])]]
        if roll < 0.36 and holders:
            return user_op(rng, w, rng.choice(holders), ALL_KINDS)
        if roll < 0.39:
            # production stopped after some blocks (the settlement of endProduceRewards books a slice too), a user acts,
            # production restarts; or the rate / percentage changes after some blocks
            script.append(rng.choice([["End", OWNER], ["SetRate", OWNER, rng.choice([1, 1000, 10 ** 6, sf.log_amount(rng)])],
                                      ["SetPct", OWNER, rng.choice([0, 1, 2500, 5000, 10000])]]))
            if holders and rng.random() < 0.5:
                script.append((lambda uu: (lambda r, ww: user_op(r, ww, uu, ALL_KINDS)))(rng.choice(holders)))
            script.append(["Time", rng.choice([1, 2, 10]), 0])
            script.append(["Start", OWNER])
            return ["Time", rng.choice([1, 3, 10, 100]), rng.choice([0, 0, 1])]
    return sf.gen_op(rng, w)


def normalize(op):
    return sb.normalize(op)


def gen_history(seed, nops, world=FullWorld, gen=gen_op):
    rng = random.Random(seed)
    cfg = gen_cfg(rng)
    w = world(cfg)
    trace = []
    try:
        for _ in range(nops):
            op = normalize(gen(rng, w))
            trace.append((op, w.exec(op)))
    finally:
        w.close()
    return cfg, trace


def replay_history(cfg, ops, world=FullWorld):
    w = world(cfg)
    trace = []
    try:
        for op in ops:
            op = normalize(op)
            trace.append((op, w.exec(op)))
    finally:
        w.close()
    return trace
