#!/bin/sh
# Offline build of the whole framework from files on disk: constants from /repo, Coq development
# (full .vo build), Rust executor with the real contracts as path dependencies.
set -e
cd "$(dirname "$0")"
export CARGO_NET_OFFLINE=true
export CARGO_TARGET_DIR="$PWD/.cache/target"
python3 tools/extract.py
(cd coq && coq_makefile -f _CoqProject -o Makefile >/dev/null 2>&1 && timeout 3400 make -j16 >/dev/null 2>.make.err || { tail -30 .make.err; echo "coq build incomplete (checks will report it)"; })
(cd harness && cargo build --offline 2>&1 | tail -3)
echo "setup done"
